"""C16 -- region-graph constructions are valid and yield well-formed circuits."""
from __future__ import annotations

import itertools
import json
import os
import random
import tempfile
import time
import traceback

import numpy as np
import z3

from cvf import families
from cvf.harness import case_hash
from cvf.symx import Explorer, SymInt, patched_scope

PROPERTY = "C16"
LEVEL = "model_checking"
CASE_TIMEOUT = {"quick": 600, "thorough": 1800}
ENCODED = [
    "cirkit.templates.region_graph.graph.RegionGraph.__init__/_check_structure",
    "cirkit.templates.region_graph.graph.RegionGraph.is_structured_decomposable/scope/num_variables",
    "cirkit.templates.region_graph.graph.RegionGraph.build_circuit (cp, cp-t, tucker, explicit sum/product factories)",
    "cirkit.templates.region_graph.graph.RegionGraph.dump/load (concrete round trip)",
    "cirkit.templates.region_graph.algorithms: RandomBinaryTree, LinearTree, FullyFactorized, QuadTree, QuadGraph, PoonDomingos, ChowLiuTree, utils.tree2rg (run concretely; their outputs are the skeletons)",
    "cirkit.symbolic.circuit.Circuit.__init__/is_smooth/is_decomposable/is_structured_decomposable on symbolic scopes",
    "cirkit.utils.scope.Scope on symbolic bit-vector sets",
]
RULE = (
    "one case = (region-graph skeleton, mode, layer abstraction).  A skeleton is either written by hand or is the "
    "output of a construction algorithm run on concrete arguments; every variable v of the skeleton is replaced by a "
    "symbolic id w_v (z3 bit-vector, w_v < N).  The REAL RegionGraph constructor, flag and build_circuit run on the "
    "symbolic scopes; every Python branch forks on z3 feasibility.  Per path z3 decides: mode 'any' (ids arbitrary, "
    "possibly colliding): the constructor raises ValueError iff some partition does not split its region into "
    "pairwise disjoint non-empty parts covering it; modes 'any' and 'inj' (ids pairwise distinct = every relabelling "
    "of the variables): is_structured_decomposable == (all partitions of equal scope have the same set of parts); "
    "the built circuit is smooth and decomposable, its scope equals the region graph's, it has one output per root "
    "with num_classes units, and it is structured-decomposable whenever the flag is.  For algorithm outputs the "
    "concrete graph is additionally required to have its roots cover exactly the requested variables and to survive "
    "dump/load unchanged.  states = explored paths; distinct = (skeleton, mode, abstraction)."
)
BOUNDS = "hand skeletons with <= 7 leaves incl. malformed ones; algorithm outputs for <= 6 variables (images up to 1x2x3 / 2x1x2), depth <= 2, repetitions <= 3, seeds 0..9 (thorough; 0..5 quick), delta in {1,2}, all labelled rooted trees with <= 4 nodes (sample of 5) for tree2rg; ids in [0,N) with N = #variables + 1 (mode any) or #variables (mode inj: all relabellings of up to 4 (quick) / 5 (thorough) of the variables, the others keep their ids); layer abstractions cp / cp-t / tucker / explicit Hadamard / explicit Kronecker factories; unit counts {1,2}x{1,2}x{1,3}"
OUTSIDE = "the algorithms' own control flow is run on concrete arguments only (numpy random streams and integer-driven loops are not symbolic); Chow-Liu mutual-information numerics; is_compatible (numpy eigenvalues); larger graphs"
ASSUMPTIONS = [
    "z3 bit-vector model of frozenset inside the real Scope (as C08)",
    "iteration over a symbolic scope concretises it under the path condition",
]
EXPLANATION = "path-exhaustive symbolic execution of RegionGraph validation / flags / build_circuit with z3 deciding each path's assertion"


# ---------------------------------------------------------------------------------------------
# skeletons:  {"nodes": [["R"|"P", [vars...]], ...], "in": {str(i): [j,...]}, "out": [i,...], "nvars": n}
# ---------------------------------------------------------------------------------------------


def _sk(nodes, ins, out):
    nv = 1 + max(v for _, vs in nodes for v in vs)
    return {"nodes": [[k, list(vs)] for k, vs in nodes], "in": {str(k): list(v) for k, v in ins.items()}, "out": list(out), "nvars": nv}


HAND = {
    # one partition {0}|{1}
    "P2": _sk([("R", [0]), ("R", [1]), ("P", [0, 1]), ("R", [0, 1])], {2: [0, 1], 3: [2]}, [3]),
    # two partitions of the same region, listing the same parts in different order (structured)
    "P2x2-swapped": _sk([("R", [0]), ("R", [1]), ("R", [1]), ("R", [0]), ("P", [0, 1]), ("P", [0, 1]), ("R", [0, 1])], {4: [0, 1], 5: [2, 3], 6: [4, 5]}, [6]),
    # {0,1,2}: {0}|{1,2} and {0,1}|{2} (not structured)
    "P3-two-ways": _sk(
        [("R", [0]), ("R", [1]), ("R", [2]), ("P", [1, 2]), ("R", [1, 2]), ("P", [0, 1]), ("R", [0, 1]), ("P", [0, 1, 2]), ("P", [0, 1, 2]), ("R", [0, 1, 2])],
        {3: [1, 2], 4: [3], 5: [0, 1], 6: [5], 7: [0, 4], 8: [6, 2], 9: [7, 8]},
        [9],
    ),
    # two region nodes carrying the same scope {0,1,2} split differently, below a common root over {0,1,2,3}
    "same-scope-two-nodes": _sk(
        [
            ("R", [0]), ("R", [1]), ("R", [2]), ("R", [3]),
            ("P", [0, 1]), ("R", [0, 1]), ("P", [1, 2]), ("R", [1, 2]),
            ("P", [0, 1, 2]), ("R", [0, 1, 2]), ("P", [0, 1, 2]), ("R", [0, 1, 2]),
            ("P", [0, 1, 2, 3]), ("P", [0, 1, 2, 3]), ("R", [0, 1, 2, 3]),
        ],
        {4: [0, 1], 5: [4], 6: [1, 2], 7: [6], 8: [5, 2], 9: [8], 10: [0, 7], 11: [10], 12: [9, 3], 13: [11, 3], 14: [12, 13]},
        [14],
    ),
    # ternary partition and multi-variable leaves
    "P3-ternary": _sk([("R", [0]), ("R", [1, 2]), ("R", [3]), ("P", [0, 1, 2, 3]), ("R", [0, 1, 2, 3])], {3: [0, 1, 2], 4: [3]}, [4]),
    # two roots
    "two-roots": _sk([("R", [0]), ("R", [1]), ("P", [0, 1]), ("R", [0, 1]), ("P", [0, 1]), ("R", [0, 1])], {2: [0, 1], 3: [2], 4: [1, 0], 5: [4]}, [3, 5]),
    # single region, no partition
    "single": _sk([("R", [0, 1])], {}, [0]),
    # MALFORMED: the partition does not cover its region
    "bad-cover": _sk([("R", [0]), ("R", [1]), ("P", [0, 1, 2]), ("R", [0, 1, 2])], {2: [0, 1], 3: [2]}, [3]),
    # MALFORMED: parts overlap
    "bad-overlap": _sk([("R", [0, 1]), ("R", [1, 2]), ("P", [0, 1, 2]), ("R", [0, 1, 2])], {2: [0, 1], 3: [2]}, [3]),
    # MALFORMED: partition scope differs from its region
    "bad-region": _sk([("R", [0]), ("R", [1]), ("P", [0, 1]), ("R", [0, 1, 2])], {2: [0, 1], 3: [2]}, [3]),
    # MALFORMED: a partition feeding two regions
    "bad-two-parents": _sk([("R", [0]), ("R", [1]), ("P", [0, 1]), ("R", [0, 1]), ("R", [0, 1])], {2: [0, 1], 3: [2], 4: [2]}, [3, 4]),
}


def algo_rg(d):
    a = d["algo"]
    if a == "tree":
        from cirkit.templates.region_graph.algorithms.utils import tree2rg

        return tree2rg(np.asarray(d["parents"]))
    if a == "clt":
        import torch

        from cirkit.templates.region_graph.algorithms import ChowLiuTree

        g = torch.Generator().manual_seed(d.get("rgseed", 0))
        n = d["nvars"]
        if d.get("input", "categorical") == "categorical":
            data = torch.randint(0, 3, (40, n), generator=g)
            return ChowLiuTree(data, "categorical", root=d.get("root"), num_categories=3)
        data = torch.randn((40, n), generator=g, dtype=torch.float64)
        return ChowLiuTree(data, "gaussian", root=d.get("root"))
    return families.region_graph(d)


def expected_vars(d):
    if "shape" in d:
        n = 1
        for x in d["shape"]:
            n *= x
        return n
    if d["algo"] == "tree":
        return len(d["parents"])
    return d["nvars"]


def harvest(rg):
    nodes = list(rg.topological_ordering())
    idx = {n: i for i, n in enumerate(nodes)}
    from cirkit.templates.region_graph.graph import RegionNode

    sk_nodes = [("R" if isinstance(n, RegionNode) else "P", sorted(n.scope)) for n in nodes]
    ins = {idx[n]: [idx[c] for c in rg.node_inputs(n)] for n in nodes if rg.node_inputs(n)}
    return _sk(sk_nodes, ins, [idx[o] for o in rg.outputs])


def _rg_signature(rg):
    """order-insensitive description of a region graph (for dump/load comparison)"""
    from cirkit.templates.region_graph.graph import RegionNode

    regions = sorted(tuple(sorted(n.scope)) for n in rg.nodes if isinstance(n, RegionNode))
    parts = sorted((tuple(sorted(p.scope)), tuple(sorted(tuple(sorted(c.scope)) for c in rg.node_inputs(p)))) for p in rg.partition_nodes)
    roots = sorted(tuple(sorted(o.scope)) for o in rg.outputs)
    return regions, parts, roots


def concrete_algo_checks(d):
    """returns list of problems of the concrete algorithm output"""
    from cirkit.templates.region_graph.graph import RegionGraph

    probs = []
    rg = algo_rg(d)
    n = expected_vars(d)
    if set(rg.scope) != set(range(n)):
        probs.append(f"roots cover {sorted(rg.scope)}, requested variables {list(range(n))}")
    for o in rg.outputs:
        if set(o.scope) != set(range(n)):
            probs.append(f"root with scope {sorted(o.scope)} does not cover all {n} variables")
    if rg.num_variables != n:
        probs.append(f"num_variables={rg.num_variables} != {n}")
    fd, path = tempfile.mkstemp(suffix=".json", prefix="c16_")
    os.close(fd)
    try:
        rg.dump(path)
        rg2 = RegionGraph.load(path)
        if _rg_signature(rg) != _rg_signature(rg2):
            probs.append("dump/load changed the region graph")
        if rg.is_structured_decomposable != rg2.is_structured_decomposable:
            probs.append(f"dump/load changed is_structured_decomposable {rg.is_structured_decomposable} -> {rg2.is_structured_decomposable}")
    finally:
        os.unlink(path)
    return probs, rg


# ---------------------------------------------------------------------------------------------
# building (real classes) and defining (z3 / python)
# ---------------------------------------------------------------------------------------------


def build_rg(sk, var_of):
    from cirkit.templates.region_graph.graph import PartitionNode, RegionGraph, RegionNode
    from cirkit.utils.scope import Scope

    objs = []
    for kind, vs in sk["nodes"]:
        sc = Scope([var_of(v) for v in vs])
        objs.append(RegionNode(sc) if kind == "R" else PartitionNode(sc))
    ins = {objs[int(k)]: [objs[j] for j in v] for k, v in sk["in"].items()}
    return RegionGraph(objs, ins, [objs[o] for o in sk["out"]])


def build_circuit(rg, how, units):
    from cirkit.symbolic import layers as SL

    ki, ks, kc = units

    def inp(scope, n):
        return SL.CategoricalLayer(scope, n, num_categories=2)

    if how in ("explicit", "explicit-kron"):
        prod = SL.HadamardLayer if how == "explicit" else SL.KroneckerLayer
        return rg.build_circuit(input_factory=inp, sum_factory=lambda i, o: SL.SumLayer(i, o), prod_factory=lambda k, ar: prod(k, arity=ar), num_input_units=ki, num_sum_units=ks, num_classes=kc)
    return rg.build_circuit(input_factory=inp, sum_product=how, num_input_units=ki, num_sum_units=ks, num_classes=kc)


class Defs:
    def __init__(self, sk, w, nbits):
        one = z3.BitVecVal(1, nbits)
        self.sk = sk
        self.S = []
        for kind, vs in sk["nodes"]:
            s = z3.BitVecVal(0, nbits)
            for v in vs:
                s = s | (one << w[v])
            self.S.append(s)
        self.n = nbits
        self.ins = {int(k): v for k, v in sk["in"].items()}
        self.parts = [i for i, (k, _) in enumerate(sk["nodes"]) if k == "P"]
        self.parents = {}
        for k, ch in self.ins.items():
            for c in ch:
                self.parents.setdefault(c, []).append(k)

    def valid(self):
        z = z3.BitVecVal(0, self.n)
        cs = []
        for p in self.parts:
            ch = self.ins.get(p, [])
            u = z
            for c in ch:
                u = u | self.S[c]
                cs.append(self.sk["nodes"][c][0] == "R")
            cs.append(u == self.S[p])
            for a, b in itertools.combinations(ch, 2):
                cs.append((self.S[a] & self.S[b]) == z)
            ps = self.parents.get(p, [])
            cs.append(len(ps) == 1)
            for q in ps:
                cs.append(self.S[q] == self.S[p])
                cs.append(self.sk["nodes"][q][0] == "R")
        for i, (k, _) in enumerate(self.sk["nodes"]):
            if k == "R":
                for c in self.ins.get(i, []):
                    cs.append(self.sk["nodes"][c][0] == "P")
        return z3.And(*[c if not isinstance(c, bool) else z3.BoolVal(c) for c in cs]) if cs else z3.BoolVal(True)

    def structured(self):
        cs = []
        for p, q in itertools.combinations(self.parts, 2):
            cp, cq = self.ins[p], self.ins[q]
            same = z3.And(*[z3.Or(*[self.S[a] == self.S[b] for b in cq]) for a in cp], *[z3.Or(*[self.S[a] == self.S[b] for a in cp]) for b in cq])
            cs.append(z3.Implies(self.S[p] == self.S[q], same))
        return z3.And(*cs) if cs else z3.BoolVal(True)

    def root_scope(self):
        s = z3.BitVecVal(0, self.n)
        for o in self.sk["out"]:
            s = s | self.S[o]
        return s


def _py_defs(sk, assign):
    S = [frozenset(assign[v] for v in vs) for _, vs in sk["nodes"]]
    ins = {int(k): v for k, v in sk["in"].items()}
    parts = [i for i, (k, _) in enumerate(sk["nodes"]) if k == "P"]
    parents = {}
    for k, ch in ins.items():
        for c in ch:
            parents.setdefault(c, []).append(k)
    valid = True
    for p in parts:
        ch = ins.get(p, [])
        if any(sk["nodes"][c][0] != "R" for c in ch):
            valid = False
        if frozenset().union(*[S[c] for c in ch]) != S[p] or sum(len(S[c]) for c in ch) != len(S[p]):
            valid = False
        ps = parents.get(p, [])
        if len(ps) != 1 or any(S[q] != S[p] or sk["nodes"][q][0] != "R" for q in ps):
            valid = False
    for i, (k, _) in enumerate(sk["nodes"]):
        if k == "R" and any(sk["nodes"][c][0] != "P" for c in ins.get(i, [])):
            valid = False
    sd = True
    for p, q in itertools.combinations(parts, 2):
        if S[p] == S[q] and {S[c] for c in ins[p]} != {S[c] for c in ins[q]}:
            sd = False
    return valid, sd, S


def concrete_run(sk, assign, how, units):
    """everything on plain ints: returns (ok, msg)"""
    valid, sd, S = _py_defs(sk, assign)
    try:
        rg = build_rg(sk, lambda v: assign[v])
        raised = None
    except ValueError as e:
        raised = e
    if raised is not None:
        if valid:
            return False, f"constructor raised ValueError ({str(raised)[:80]}) on a valid region graph (ids {assign})"
        return True, "malformed graph rejected"
    if not valid:
        return False, f"constructor accepted a malformed region graph (ids {assign})"
    flag = rg.is_structured_decomposable
    if flag != sd:
        return False, f"is_structured_decomposable={flag} but the partitions {'are' if sd else 'are not'} structured (ids {assign})"
    try:
        sc = build_circuit(rg, how, units)
    except Exception as e:  # noqa
        tb = traceback.format_exc()
        return False, f"build_circuit({how}, units={units}) raised {type(e).__name__}: {e}"
    probs = []
    if not sc.is_smooth:
        probs.append("circuit not smooth")
    if not sc.is_decomposable:
        probs.append("circuit not decomposable")
    if set(sc.scope) != set().union(*[S[o] for o in sk["out"]]):
        probs.append(f"circuit scope {sorted(sc.scope)} != region graph scope")
    if flag and not sc.is_structured_decomposable:
        probs.append("region graph is structured-decomposable, the circuit is not")
    if len(sc.outputs) != len(sk["out"]):
        probs.append(f"{len(sc.outputs)} outputs for {len(sk['out'])} roots")
    if any(o.num_output_units != units[2] for o in sc.outputs):
        probs.append(f"output units {[o.num_output_units for o in sc.outputs]} != num_classes={units[2]}")
    if probs:
        return False, "; ".join(probs) + f" (ids {assign}, {how}, units={units})"
    return True, "as specified"


# ---------------------------------------------------------------------------------------------


def _algos(tier):
    out = []
    for n in (2, 3, 4, 5):
        for rep in (1, 2):
            for seed in (0, 1, 3):
                out.append({"algo": "rbt", "nvars": n, "rep": rep, "rgseed": seed})
                out.append({"algo": "lt", "nvars": n, "rep": rep, "randomize": True, "rgseed": seed})
        out.append({"algo": "lt", "nvars": n, "rep": 1})
        out.append({"algo": "ff", "nvars": n, "rep": 1})
        out.append({"algo": "ff", "nvars": n, "rep": 2})
    out.append({"algo": "rbt", "nvars": 5, "depth": 1, "rep": 2, "rgseed": 2})
    out.append({"algo": "rbt", "nvars": 6, "depth": 2, "rep": 1, "rgseed": 4})
    out.append({"algo": "rbt", "nvars": 4, "rep": 3, "rgseed": 5})
    out.append({"algo": "lt", "nvars": 4, "rep": 3, "randomize": True, "rgseed": 0})
    out.append({"algo": "lt", "nvars": 4, "rep": 2, "randomize": True, "rgseed": 2})
    out.append({"algo": "lt", "nvars": 5, "rep": 2, "randomize": True, "rgseed": 5})
    out.append({"algo": "ff", "nvars": 1, "rep": 1})
    for shape in ([1, 2, 2], [1, 2, 3], [2, 1, 2], [1, 1, 3], [1, 3, 2]):
        out.append({"algo": "qt", "shape": shape, "splits": 2})
        out.append({"algo": "qt", "shape": shape, "splits": 4})
        out.append({"algo": "qg", "shape": shape})
        out.append({"algo": "pd", "shape": shape, "delta": 1})
    out.append({"algo": "pd", "shape": [1, 2, 3], "delta": 2})
    out.append({"algo": "pd", "shape": [1, 2, 2], "delta": 1, "max_depth": 1})
    for n in (2, 3, 4):
        for parents in itertools.product(range(-1, n), repeat=n):
            if _is_tree(parents):
                out.append({"algo": "tree", "parents": list(parents)})
    rnd = random.Random(5)
    k = 0
    while k < (6 if tier == "quick" else 40):
        parents = [rnd.randrange(-1, 5) for _ in range(5)]
        if _is_tree(parents):
            out.append({"algo": "tree", "parents": parents})
            k += 1
    if tier != "quick":
        # thorough: more seeds / repetitions / sizes for the randomised constructions
        for n in (3, 4, 5, 6):
            for rep in (1, 2, 3):
                for seed in (2, 4, 5, 6, 7, 8, 9):
                    out.append({"algo": "rbt", "nvars": n, "rep": rep, "rgseed": seed})
                    out.append({"algo": "lt", "nvars": n, "rep": rep, "randomize": True, "rgseed": seed})
        for n in (4, 5, 6):
            for depth in (1, 2):
                for seed in (0, 1, 2):
                    out.append({"algo": "rbt", "nvars": n, "depth": depth, "rep": 2, "rgseed": seed})
        for n in (6,):
            out.append({"algo": "ff", "nvars": n, "rep": 3})
            out.append({"algo": "lt", "nvars": n, "rep": 1})
        for n in (3, 4, 5, 6):
            for seed in range(4, 10):
                out.append({"algo": "clt", "nvars": n, "rgseed": seed})
    for n in (3, 4, 5):
        for seed in (0, 1):
            out.append({"algo": "clt", "nvars": n, "rgseed": seed})
        out.append({"algo": "clt", "nvars": n, "rgseed": 2, "root": n - 1})
        out.append({"algo": "clt", "nvars": n, "rgseed": 3, "input": "gaussian"})
    return out


def _is_tree(parents):
    n = len(parents)
    if sum(1 for p in parents if p == -1) != 1:
        return False
    for v in range(n):
        seen = set()
        while v != -1:
            if v in seen or parents[v] == v:
                return False
            seen.add(v)
            v = parents[v]
    return True


HOWS = ["cp", "cp-t", "tucker", "explicit", "explicit-kron"]
UNITS = [(1, 1, 1), (2, 2, 1), (2, 2, 3), (1, 2, 3), (2, 1, 1)]


def _units(how, k):
    u = UNITS[k % len(UNITS)]
    if how in ("cp-t", "tucker") and u[0] != u[1]:
        # these abstractions document a refusal (ValueError) when input and sum layers have different sizes
        u = (u[1], u[1], u[2])
    return list(u)


def cases(tier, seed):
    rnd = random.Random(seed)
    out = []
    k = 0
    for name in HAND:
        for mode in ("any", "inj"):
            hows = HOWS if tier != "quick" else [HOWS[k % 5], HOWS[(k + 2) % 5]]
            for how in hows:
                out.append({"skeleton": name, "mode": mode, "how": how, "units": _units(how, k)})
                k += 1
    algos = _algos(tier)
    if tier == "quick":
        # one member per algorithm family always; the rest sampled
        fams = {}
        for a in algos:
            fams.setdefault(a["algo"], []).append(a)
        pick = []
        for f, lst in fams.items():
            rnd.shuffle(lst)
            pick.extend(lst[: {"tree": 14, "rbt": 10, "lt": 10}.get(f, 6)])
        algos = pick
    for a in algos:
        hows = HOWS if tier != "quick" else [HOWS[k % 5]]
        for how in hows:
            out.append({"algo": a, "mode": "inj", "how": how, "units": _units(how, k)})
            k += 1
    return out


def run_case(desc, seed, tier):
    t0 = time.time()
    res = {"status": "ok", "obligations": 0, "discharged": 0, "queries": 0, "solver_s": 0.0, "paths": 0, "violations": [], "inconclusive": []}
    how, units, mode = desc["how"], tuple(desc["units"]), desc["mode"]
    label0 = desc.get("skeleton") or json.dumps(desc["algo"], sort_keys=True)

    def viol(kind, detail, rp):
        res["violations"].append({"signature": f"{kind}|{label0}|{mode}|{how}", "detail": detail, "replay": rp, "hash": case_hash(rp)})
        res["status"] = "violation"

    if "algo" in desc:
        try:
            probs, rg = concrete_algo_checks(desc["algo"])
        except Exception as e:  # noqa
            tb = traceback.format_exc()
            viol(f"algorithm-raises:{type(e).__name__}", f"{type(e).__name__}: {e}", {"kind": "algo", "algo": desc["algo"]})
            return _fin(res, desc, t0)
        res["obligations"] += 1
        if probs:
            viol("algorithm-output", "; ".join(probs[:3]), {"kind": "algo", "algo": desc["algo"]})
            return _fin(res, desc, t0)
        res["discharged"] += 1
        sk = harvest(rg)
    else:
        sk = HAND[desc["skeleton"]]
    nv = sk["nvars"]
    N = nv + 1 if mode == "any" else max(nv, 2)
    w = [z3.BitVec(f"w{v}", N) for v in range(nv)]
    ex = Explorer(N, max_paths=1500 if tier == "quick" else 6000)
    for v in w:
        ex.assume(z3.ULT(v, N))
    if mode == "inj" and nv > 1:
        ex.assume(z3.Distinct(*w))
        # at most FREE variables are relabelled at a time (the others keep their ids): FREE! paths
        free = 4 if tier == "quick" else 5
        if nv > free:
            keep = random.Random(case_hash(desc)).sample(range(nv), nv - free)
            for v in keep:
                ex.assume(w[v] == v)
    d = Defs(sk, w, N)

    def program():
        with patched_scope(N):
            try:
                rg_ = build_rg(sk, lambda v: SymInt(w[v]))
            except ValueError:
                return ("invalid",)
            flag = bool(rg_.is_structured_decomposable)
            sc = build_circuit(rg_, how, units)
            scope_ok = bool(sc.scope == rg_.scope)
            return ("ok", flag, bool(sc.is_smooth), bool(sc.is_decomposable), bool(sc.is_structured_decomposable), scope_ok, len(list(sc.outputs)), [o.num_output_units for o in sc.outputs])

    try:
        results = ex.run(program)
    except Exception as e:  # noqa  (the real code raised on some path)
        tb = traceback.format_exc()
        m = ex.model()
        assign = [m.eval(v, model_completion=True).as_long() for v in w] if m is not None else list(range(nv))
        ok, msg = concrete_run(sk, assign, how, units)
        rp = {"kind": "rg", "skeleton": sk, "assign": assign, "how": how, "units": list(units)}
        if ok:
            from cvf.harness import HarnessError

            raise HarnessError(f"exception only under symbolic scopes: {type(e).__name__}: {e}\n{tb[-1500:]}")
        viol(f"raises:{type(e).__name__}", msg, rp)
        return _fin(res, desc, t0, ex)
    res["paths"] = ex.paths

    def check(label, pc, bad):
        res["obligations"] += 1
        ex.with_pc(pc)
        m = ex.model([bad])
        if m is None:
            res["discharged"] += 1
            return
        assign = [m.eval(v, model_completion=True).as_long() for v in w]
        ok, msg = concrete_run(sk, assign, how, units)
        rp = {"kind": "rg", "skeleton": sk, "assign": assign, "how": how, "units": list(units)}
        if ok:
            res["inconclusive"].append(f"{label}: solver model {assign} not reproduced on the real code")
            return
        viol(label, msg, rp)

    T_ = z3.BoolVal(True)
    for r, pc in results:
        if r[0] == "invalid":
            check("rejected-but-valid", pc, d.valid())
            continue
        _, flag, sm, de, sdc, scope_ok, nout, ounits = r
        check("accepted-but-malformed", pc, z3.Not(d.valid()))
        check("sd-flag-iff-partitions", pc, d.structured() != z3.BoolVal(flag))
        for name, good in (("circuit-smooth", sm), ("circuit-decomposable", de), ("circuit-scope", scope_ok), ("circuit-outputs", nout == len(sk["out"])), ("circuit-output-units", all(u == units[2] for u in ounits)), ("circuit-sd-when-rg-sd", (not flag) or sdc)):
            if good:
                res["obligations"] += 1
                res["discharged"] += 1
            else:
                check(name, pc, T_)
    if ex.unexplored:
        res["inconclusive"].append(f"{ex.unexplored} path prefixes left unexplored")
    return _fin(res, desc, t0, ex)


def _fin(res, desc, t0, ex=None):
    if ex is not None:
        res["queries"] = ex.n_queries
        res["solver_s"] = ex.time
        res["states"] = ex.paths
        res["transitions"] = ex.n_queries
    res["hash"] = case_hash(desc)
    res["nontrivial"] = True
    res["sample"] = {"case": desc, "paths": res.get("paths", 0), "wall_s": round(time.time() - t0, 2)}
    return res


def replay(rp):
    if rp.get("kind") == "algo":
        try:
            probs, _ = concrete_algo_checks(rp["algo"])
        except Exception as e:  # noqa
            return False, f"{type(e).__name__}: {e}"
        return (not probs), ("; ".join(probs[:3]) or "algorithm output as specified")
    return concrete_run(rp["skeleton"], rp["assign"], rp["how"], tuple(rp["units"]))

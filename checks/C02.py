"""C02 -- folding and optimization never change the computed function; every symbolic tensor
parameter stays addressable as exactly one slice of exactly one compiled tensor."""
from __future__ import annotations

import random

from cvf import circuit_check, families
from checks import C01

PROPERTY = "C02"
LEVEL = "translation_validation"
CASE_TIMEOUT = {"quick": 420, "thorough": 1500}
ENCODED = C01.ENCODED + [
    "cirkit.backend.torch.compiler._fold_circuit/_fold_layers_group/_fold_parameters/_fold_parameter_nodes_group",
    "cirkit.backend.torch.graph.folding.build_folded_graph/group_foldable_modules/build_address_book_entry/build_address_book_stacked_entry",
    "cirkit.backend.torch.graph.optimize.optimize_graph/match_optimization_patterns/_prioritize_optimization_strategy",
    "cirkit.backend.torch.compiler._match_layer_pattern/_match_parameter_nodes_pattern/_optimize_circuit",
    "cirkit.backend.torch.optimization.layers.* (Tucker, CP-T, sum collapse, Kronecker tensordot)",
    "cirkit.backend.torch.optimization.parameters.* (log-softmax, einsum rewrites)",
    "cirkit.backend.torch.compiler.TorchCompilerState (symbolic->compiled parameter map)",
    "cirkit.symbolic.functional.* (to build the operator pipelines that are compiled)",
]
RULE = (
    "one case = (circuit or operator pipeline, semiring): the SAME symbolic parameter variables are written into "
    "the four compilations (fold,optimize in {F,T}^2) through the compiler's symbolic->compiled map; every output "
    "entry of every compilation is compared by the solver with the reference semantics AND with the (F,F) "
    "compilation; the map is audited (registered, in range, shape, pairwise disjoint slices). "
    "distinct = distinct (descriptor, semiring); non-trivial = >= 2 symbolic parameter entries."
)
BOUNDS = C01.BOUNDS + "; operator pipelines of depth <= 3 (integrate, multiply/square, differentiate, evidence, conjugate, concatenate); max_opt_steps=5 as in the code"
OUTSIDE = C01.OUTSIDE
ASSUMPTIONS = C01.ASSUMPTIONS
EXPLANATION = "pairwise symbolic equivalence of the four compilations of each circuit, tied through the compiler state map"


def _pipes(tier):
    cat = {"kind": "rg", "algo": "rbt", "nvars": 4, "sp": "cp", "input": "cat-logits", "weights": "raw", "K": 2}
    cat_t = {"kind": "rg", "algo": "qt", "shape": [1, 2, 2], "sp": "tucker", "input": "cat-softmax", "weights": "softmax", "K": 2}
    emb = {"kind": "rg", "algo": "lt", "nvars": 3, "sp": "cp-t", "input": "embedding", "weights": "raw", "K": 2}
    emb_qg = {"kind": "rg", "algo": "qg", "shape": [1, 2, 2], "sp": "cp", "input": "embedding", "weights": "raw", "K": 2}
    gau = {"kind": "rg", "algo": "rbt", "nvars": 3, "sp": "cp", "input": "gaussian", "weights": "raw", "K": 2}
    pol = {"kind": "hand", "name": "nested", "K": 2, "input": "poly2", "ids": [0, 1, 2]}
    mixed = {"kind": "hand", "name": "mixed-inputs", "K": 2}
    shared = {"kind": "hand", "name": "shared", "K": 2, "input": "cat-logits"}
    out = [
        {"kind": "pipe", "base": cat, "ops": [["integrate", None]]},
        {"kind": "pipe", "base": cat, "ops": [["integrate", [0, 2]]]},
        {"kind": "pipe", "base": cat, "ops": [["square"]]},
        {"kind": "pipe", "base": cat, "ops": [["square"], ["integrate", None]]},
        {"kind": "pipe", "base": cat, "ops": [["evidence", {"1": 2}]]},
        {"kind": "pipe", "base": cat, "ops": [["evidence", {"0": 1, "3": 0}], ["integrate", [1]]]},
        {"kind": "pipe", "base": cat_t, "ops": [["square"]]},
        {"kind": "pipe", "base": cat_t, "ops": [["integrate", [1, 2]]]},
        {"kind": "pipe", "base": emb, "ops": [["multiply_other"]]},
        {"kind": "pipe", "base": emb, "ops": [["multiply_other"], ["integrate", None]]},
        {"kind": "pipe", "base": emb, "ops": [["conjugate"]]},
        {"kind": "pipe", "base": emb_qg, "ops": [["conjugate"], ["integrate", [0, 3]]]},
        {"kind": "pipe", "base": emb_qg, "ops": [["concatenate", 2]]},
        {"kind": "pipe", "base": gau, "ops": [["integrate", [1]]]},
        {"kind": "pipe", "base": gau, "ops": [["square"]]},
        {"kind": "pipe", "base": pol, "ops": [["differentiate", 1]]},
        {"kind": "pipe", "base": pol, "ops": [["square"]]},
        {"kind": "pipe", "base": pol, "ops": [["square"], ["differentiate", 1]]},
        {"kind": "pipe", "base": mixed, "ops": [["integrate", [0, 1]]]},
        {"kind": "pipe", "base": mixed, "ops": [["integrate", [0]], ["integrate", [1]]]},
        {"kind": "pipe", "base": shared, "ops": [["integrate", [1]]]},
        {"kind": "pipe", "base": shared, "ops": [["evidence", {"0": 1}]]},
    ]
    return out


# parameter graphs in which the inner node of an optimizer rewrite pattern has a second consumer
_SHARED = [
    {"kind": "hand", "name": "param-shared-node", "K": 2, "which": "softmax", "input": "embedding"},
    {"kind": "hand", "name": "param-shared-node", "K": 2, "which": "outer", "input": "embedding"},
]


def cases(tier, seed):
    rnd = random.Random(seed)
    hand = C01._hand(tier)
    rg = C01._rg(tier)
    pipes = _pipes(tier)
    sems = ["sum-product", "lse-sum", "complex-lse-sum"]
    out = []

    def sems_for(c):
        txt = str(c)
        if "poly" in txt:
            return ["sum-product", "complex-lse-sum"]
        if "param-shared-node" in txt:
            return ["sum-product"]
        return sems

    if tier == "quick":
        rnd.shuffle(rg)
        rnd.shuffle(hand)
        picks = pipes + _SHARED + hand[:10] + rg[:8]
        for i, c in enumerate(picks):
            ss = sems_for(c)
            out.append({"circuit": c, "semiring": ss[(i + seed) % len(ss)]})
    else:
        for c in pipes + _SHARED + hand + rg:
            for s in sems_for(c):
                out.append({"circuit": c, "semiring": s})
        for i, c in enumerate(families.random_members(1001, 160)):
            out.append({"circuit": c, "semiring": sems[i % 3]})
    return out


def run_case(desc, seed, tier):
    batches = (2,) if tier == "quick" else (2, 1, 3)
    return circuit_check.eval_case(desc["circuit"], desc["semiring"], seed, batches=batches, compare_flags=True)


replay = C01.replay

"""C14 -- every parameter operator computes its documented tensor function."""
from __future__ import annotations

import itertools
import random
import traceback

import numpy as np
import torch

from cirkit.backend.torch.compiler import TorchCompiler, _fold_parameters
from cirkit.symbolic import parameters as SP
from cirkit.symbolic.dtypes import DataType
from cirkit.symbolic.initializers import NormalInitializer
from cirkit.symbolic.parameters import Parameter, TensorParameter

from cvf import circuit_check, refsem
from cvf import terms as T
from cvf import vals as V
from cvf.harness import HarnessError, LeafSpec, Session, SymEnv, case_hash, compiled_slice, eq_goal
from cvf.shadow import Shadow, TranslatorMismatch, lift_concrete
from cvf.vals import Unsupported, Val

PROPERTY = "C14"
LEVEL = "translation_validation"
CASE_TIMEOUT = {"quick": 420, "thorough": 1500}
ENCODED = [
    "cirkit.symbolic.parameters.*.shape (declared shapes; the reference evaluates each node and asserts the declared shape)",
    "cirkit.backend.torch.rules.parameters.DEFAULT_PARAMETER_COMPILATION_RULES (axes / shapes passed to the torch nodes)",
    "cirkit.backend.torch.parameters.nodes.Torch*Parameter.forward (every node type)",
    "cirkit.backend.torch.parameters.parameter.TorchParameter.forward / ParameterAddressBook.lookup (incl. folded graphs)",
    "cirkit.backend.torch.compiler.TorchCompiler.compile_parameter/_fold_parameters/_fold_parameter_nodes_group",
    "cirkit.backend.torch.optimization.parameters.* (through circuits compiled with optimize=True)",
]
RULE = (
    "one case = (parameter-graph builder, number of folds F): F structurally identical symbolic parameter graphs with "
    "independent leaves are compiled by the real compiler, folded by the real folding code into one graph and evaluated "
    "under the shadow engine with every leaf entry symbolic; for every fold and entry z3 decides equality with the "
    "mathematical definition of the node (reference semantics per docstring) along the declared axis; declared and "
    "compiled shapes are compared. Graph rewrites (log-softmax, einsum) are exercised through small circuits compiled "
    "with optimize=True. distinct = (builder, F)."
)
BOUNDS = "every node type x ranks 1-3, dims <= 3, every admissible axis incl. negative x F in {1,2,3}; compositions of depth <= 3 taken from the operator rules"
OUTSIDE = "float rounding; PIC / quadrature parameter nodes (pic.py)"
ASSUMPTIONS = [
    "floats are reals; inputs of log / stddev positive; softmax of plain leaves abstracted to the open simplex",
    "E[theta], SQRT, POS atoms as described in DESIGN.md 1",
]
EXPLANATION = "node-wise tensor identities decided by z3 for all leaf values"


def leaf(*shape, cplx=False):
    return TensorParameter(*shape, initializer=NormalInitializer(), dtype=DataType.COMPLEX if cplx else DataType.REAL)


def U(node_cls, shape, **kw):
    return lambda: (Parameter.from_unary(node_cls(shape, **kw), leaf(*shape)), {})


def _builders():
    B = {}
    shapes = [(3,), (2, 3), (2, 3, 2)]
    # index
    for shp in shapes:
        for ax in range(-len(shp), len(shp)):
            n = shp[ax]
            idx = [n - 1, 0] if n > 1 else [0, 0]
            B[f"index{shp}ax{ax}"] = (lambda shp=shp, ax=ax, idx=idx: (Parameter.from_unary(SP.IndexParameter(shp, indices=idx, axis=ax), leaf(*shp)), {}))
    # binary same-shape
    for shp in shapes[1:]:
        B[f"sum{shp}"] = lambda shp=shp: (Parameter.from_binary(SP.SumParameter(shp, shp), leaf(*shp), leaf(*shp)), {})
        B[f"hadamard{shp}"] = lambda shp=shp: (Parameter.from_binary(SP.HadamardParameter(shp, shp), leaf(*shp), leaf(*shp)), {})
    for s1, s2 in [((2,), (3,)), ((2, 3), (3, 2)), ((2, 1, 2), (1, 2, 2))]:
        B[f"kron{s1}x{s2}"] = lambda s1=s1, s2=s2: (Parameter.from_binary(SP.KroneckerParameter(s1, s2), leaf(*s1), leaf(*s2)), {})
    # outer product / sum along every axis
    for rank, base in ((1, (2,)), (2, (2, 3)), (3, (2, 3, 2))):
        for ax in range(-rank, rank):
            s2 = list(base)
            s2[ax] = base[ax] + 1
            s2 = tuple(s2)
            B[f"outerprod{base}x{s2}ax{ax}"] = lambda base=base, s2=s2, ax=ax: (Parameter.from_binary(SP.OuterProductParameter(base, s2, axis=ax), leaf(*base), leaf(*s2)), {})
            B[f"outersum{base}x{s2}ax{ax}"] = lambda base=base, s2=s2, ax=ax: (Parameter.from_binary(SP.OuterSumParameter(base, s2, axis=ax), leaf(*base), leaf(*s2)), {})
    # entrywise
    for shp in shapes[:2]:
        B[f"exp{shp}"] = U(SP.ExpParameter, shp)
        B[f"square{shp}"] = U(SP.SquareParameter, shp)
        B[f"softplus{shp}"] = U(SP.SoftplusParameter, shp)
        B[f"sigmoid{shp}"] = U(SP.SigmoidParameter, shp)
        B[f"scaledsigmoid{shp}"] = U(SP.ScaledSigmoidParameter, shp, vmin=0.25, vmax=2.0)
        B[f"clampmin{shp}"] = U(SP.ClampParameter, shp, vmin=0.125)
        B[f"clampboth{shp}"] = U(SP.ClampParameter, shp, vmin=-0.5, vmax=0.75)
        B[f"log{shp}"] = lambda shp=shp: (lambda l: (Parameter.from_unary(SP.LogParameter(shp), l), {l: LeafSpec(positive=True)}))(leaf(*shp))
        B[f"conj{shp}"] = lambda shp=shp: (Parameter.from_unary(SP.ConjugateParameter(shp), leaf(*shp, cplx=True)), {})
    # reductions, softmax, log-softmax along every axis
    for shp in shapes[1:]:
        for ax in range(-len(shp), len(shp)):
            B[f"reducesum{shp}ax{ax}"] = U(SP.ReduceSumParameter, shp, axis=ax)
            B[f"reduceprod{shp}ax{ax}"] = U(SP.ReduceProductParameter, shp, axis=ax)
            B[f"reducelse{shp}ax{ax}"] = U(SP.ReduceLSEParameter, shp, axis=ax)
    for shp in shapes:
        for ax in range(-len(shp), len(shp)):
            B[f"softmax{shp}ax{ax}"] = U(SP.SoftmaxParameter, shp, axis=ax)
            B[f"logsoftmax{shp}ax{ax}"] = U(SP.LogSoftmaxParameter, shp, axis=ax)
    for shp in ((2, 2), (2, 3), (3, 2)):
        B[f"mixing{shp}"] = U(SP.MixingWeightParameter, shp)
    # gaussian product statistics
    for k1, k2 in ((1, 2), (2, 2), (2, 3)):
        def gp(cls, k1=k1, k2=k2, four=True):
            m1, s1, m2, s2 = leaf(k1), leaf(k1), leaf(k2), leaf(k2)
            spec = {s1: LeafSpec(positive=True), s2: LeafSpec(positive=True)}
            if four:
                return Parameter.from_nary(cls((k1,), (k1,), (k2,), (k2,)), m1, s1, m2, s2), spec
            return Parameter.from_binary(cls((k1,), (k2,)), s1, s2), spec
        B[f"gpmean{k1}x{k2}"] = lambda gp=gp: gp(SP.GaussianProductMean)
        B[f"gplogpart{k1}x{k2}"] = lambda gp=gp: gp(SP.GaussianProductLogPartition)
        B[f"gpstddev{k1}x{k2}"] = lambda gp=gp: gp(SP.GaussianProductStddev, four=False)
    # polynomials
    for (k1, d1), (k2, d2) in (((1, 2), (2, 2)), ((2, 2), (2, 3)), ((2, 3), (1, 3)), ((2, 1), (2, 2))):
        B[f"polyprod({k1},{d1})x({k2},{d2})"] = lambda k1=k1, d1=d1, k2=k2, d2=d2: (Parameter.from_binary(SP.PolynomialProduct((k1, d1), (k2, d2)), leaf(k1, d1), leaf(k2, d2)), {})
    for (k, d) in ((2, 3), (1, 4), (2, 2)):
        for order in (1, 2, 3):
            B[f"polydiff({k},{d})o{order}"] = lambda k=k, d=d, order=order: (Parameter.from_unary(SP.PolynomialDifferential((k, d), order=order), leaf(k, d)), {})
    # constants and references
    B["const-array"] = lambda: (Parameter.from_input(SP.ConstantParameter(2, 3, value=np.arange(6, dtype=np.float64).reshape(2, 3) / 4.0)), {})
    B["const-scalar"] = lambda: (Parameter.from_input(SP.ConstantParameter(2, 2, value=1.5)), {})
    B["sum-with-const"] = lambda: (Parameter.from_binary(SP.SumParameter((2, 3), (2, 3)), leaf(2, 3), SP.ConstantParameter(2, 3, value=np.ones((2, 3)) * 0.5)), {})
    # compositions taken from the operator rules
    def comp_lse_outersum():
        p1, p2 = leaf(2, 3), leaf(2, 3)
        lg = Parameter.from_unary(SP.LogParameter((2, 3)), p1)
        os_ = Parameter.from_binary(SP.OuterSumParameter((2, 3), (2, 3), axis=0), lg, Parameter.from_input(p2))
        return Parameter.from_unary(SP.ReduceLSEParameter(os_.shape, axis=1), os_), {p1: LeafSpec(unit_interval=True)}
    B["comp:lse(outersum(log p, q), axis=1)"] = comp_lse_outersum

    def comp_kron_softmax():
        a = Parameter.from_unary(SP.SoftmaxParameter((2, 2)), leaf(2, 2))
        b = Parameter.from_unary(SP.SoftmaxParameter((2, 3)), leaf(2, 3))
        return Parameter.from_binary(SP.KroneckerParameter((2, 2), (2, 3)), a, b), {}
    B["comp:kron(softmax, softmax)"] = comp_kron_softmax

    def comp_index_kron():
        k = Parameter.from_binary(SP.KroneckerParameter((2, 4), (2, 4)), leaf(2, 4), leaf(2, 4))
        cols = np.arange(16).reshape(2, 2, 2, 2).transpose(0, 2, 1, 3).reshape(-1).tolist()
        return Parameter.from_unary(SP.IndexParameter((4, 16), indices=cols, axis=1), k), {}
    B["comp:index(kron, axis=1)"] = comp_index_kron

    def comp_conj_outerprod():
        o = Parameter.from_binary(SP.OuterProductParameter((2, 3), (2, 3), axis=0), leaf(2, 3, cplx=True), leaf(2, 3, cplx=True))
        return Parameter.from_unary(SP.ConjugateParameter(o.shape), o), {}
    B["comp:conj(outerprod axis 0)"] = comp_conj_outerprod

    def comp_reducesum_softmax0():
        sm = Parameter.from_unary(SP.SoftmaxParameter((3, 2), axis=0), leaf(3, 2))
        return Parameter.from_unary(SP.ReduceSumParameter((3, 2), axis=0), sm), {}
    B["comp:reducesum(softmax axis 0, axis 0)"] = comp_reducesum_softmax0

    def comp_gp_lp_sum():
        m1, s1, m2, s2 = leaf(2), leaf(2), leaf(2), leaf(2)
        lp = Parameter.from_nary(SP.GaussianProductLogPartition((2,), (2,), (2,), (2,)), m1, s1, m2, s2)
        osum = Parameter.from_binary(SP.OuterSumParameter((2,), (2,), axis=0), leaf(2), leaf(2))
        return Parameter.from_binary(SP.SumParameter((4,), (4,)), lp, osum), {s1: LeafSpec(positive=True), s2: LeafSpec(positive=True)}
    B["comp:sum(gp-logpartition, outersum)"] = comp_gp_lp_sum

    def comp_polydiff_prod():
        pp = Parameter.from_binary(SP.PolynomialProduct((2, 2), (2, 2)), leaf(2, 2), leaf(2, 2))
        return Parameter.from_unary(SP.PolynomialDifferential(pp.shape, order=1), pp), {}
    B["comp:polydiff(polyprod)"] = comp_polydiff_prod
    return B


BUILDERS = _builders()


def _leaves_of(p: Parameter):
    return [n for n in p.nodes if isinstance(n, TensorParameter)]


def _run(name, F, fold, seed, overrides=None, concrete=False):
    """returns ('ok'|..., payload).  concrete=True: plain float run vs float oracle."""
    T.reset_interning()
    senv = SymEnv(seed, overrides or {})
    graphs = []
    for _ in range(F):
        g, specs = BUILDERS[name]()
        graphs.append(g)
        for l in _leaves_of(g):
            if isinstance(l, SP.ConstantParameter):
                continue
            senv.new_param(l, specs.get(l, LeafSpec(complex=(l.dtype == DataType.COMPLEX))))
    comp = TorchCompiler(semiring="sum-product", fold=fold, optimize=False)
    tps = [comp.compile_parameter(g) for g in graphs]
    if fold and F >= 1:
        tp = _fold_parameters(comp, tps)
        tp.reset_parameters()
        outs = None
    else:
        for t in tps:
            t.reset_parameters()
        tp = None
    # write the valuation
    for g in graphs:
        for l in _leaves_of(g):
            if l in senv.leaf_names:
                sl = compiled_slice(comp, l)
                with torch.no_grad():
                    sl.copy_(torch.as_tensor(senv.concrete_leaf(l), dtype=sl.dtype))
    refs = [refsem.eval_parameter(g, senv.penv) for g in graphs]
    if concrete:
        res = tp() if tp is not None else torch.cat([t() for t in tps], dim=0)
        want_shape = (F, *graphs[0].shape)
        if tuple(res.shape) != want_shape:
            return "shape", f"compiled shape {tuple(res.shape)} != (folds, declared shape) {want_shape}"
        got = res.detach().numpy()
        for f in range(F):
            for idx in np.ndindex(*graphs[f].shape):
                w = refs[f][idx].concrete(senv.ctx.env)
                gv = got[(f,) + idx].item()
                if not V.close(gv, w, rtol=1e-6, atol=1e-9):
                    return "value", f"fold {f} entry {idx}: compiled {gv!r} but the definition gives {w!r}"
        return "ok", "agrees"
    m = Shadow(senv.ctx)
    with m:
        for g in graphs:
            for l in _leaves_of(g):
                if l in senv.leaf_names:
                    m.bind(compiled_slice(comp, l), senv.penv.leaves[l])
        res = tp() if tp is not None else torch.cat([t() for t in tps], dim=0)
        arr = m.get(res)
        if arr is None:
            arr = lift_concrete(res)
    return "traced", (senv, graphs, refs, res, arr, m)


def _circuit_cases():
    out = []
    for ax in (1, -1, 0, -2):
        out.append({"circuit": {"kind": "hand", "name": "param-logsoftmax", "K": 2, "axis": ax, "input": "cat-logits"}})
    for oa, ra in ((0, 1), (1, 1), (0, 0), (1, 0)):
        out.append({"circuit": {"kind": "hand", "name": "param-reducesum-outerprod", "outer": oa, "reduce": ra, "input": "embedding"}})
    # inner node of a rewrite pattern with a second consumer (the rewrite must not fire / must keep the node)
    out.append({"circuit": {"kind": "hand", "name": "param-shared-node", "K": 2, "which": "softmax", "input": "embedding"}, "semirings": ["sum-product"]})
    out.append({"circuit": {"kind": "hand", "name": "param-shared-node", "K": 2, "which": "outer", "input": "embedding"}, "semirings": ["sum-product"]})
    return out


def run_case(desc, seed, tier):
    if "circuit" in desc:
        # parameter-graph rewrites of the optimizer, exercised through a small circuit and all flag pairs
        return circuit_check.eval_case(desc["circuit"], desc["semiring"], seed, batches=(2,), compare_flags=True)
    name, F, fold = desc["builder"], desc["F"], desc["fold"]
    res = {"status": "ok", "obligations": 0, "discharged": 0, "syntactic": 0, "queries": 0, "solver_s": 0.0, "paths": 1, "violations": [], "inconclusive": [], "stubs": [], "ops_validated": 0}

    def violation(kind, detail, ov=None):
        rp = {"builder": name, "F": F, "fold": fold, "overrides": ov or {}, "seed": seed}
        res["violations"].append({"signature": f"{kind}|{name}|F={F}|fold={fold}", "detail": detail, "replay": rp, "hash": case_hash(rp)})
        res["status"] = "violation"

    try:
        st, payload = _run(name, F, fold, seed)
    except (Unsupported, TranslatorMismatch) as e:
        st2, msg = _safe_concrete(name, F, fold, seed, {})
        if st2 == "ok":
            raise HarnessError(f"shadow engine failed, concrete run agrees: {type(e).__name__}: {str(e)[:400]}")
        violation(f"{st2}(concrete-fallback)", msg)
        return _fin(res, desc, 0)
    except AssertionError as e:
        if "refsem:" in str(e):
            violation("declared-shape", str(e))
            return _fin(res, desc, 0)
        raise
    except HarnessError:
        raise
    except Exception as e:  # noqa  (raised by the real code)
        tb = traceback.format_exc()
        st2, msg = _safe_concrete(name, F, fold, seed, {})
        if st2 == "ok":
            raise HarnessError(f"exception only under the shadow engine: {type(e).__name__}: {e}\n{tb[-1200:]}")
        violation(f"raises:{type(e).__name__}@{circuit_check.repo_frame(tb)}", msg)
        return _fin(res, desc, 0)
    senv, graphs, refs, out, arr, m = payload
    res["ops_validated"] = m.n_validated
    want_shape = (F, *graphs[0].shape)
    if tuple(out.shape) != want_shape:
        violation("shape", f"compiled shape {tuple(out.shape)} != (folds, declared shape) {want_shape}")
        return _fin(res, desc, len(senv.param_vars))
    sess = Session(senv)
    sess.sanity()
    for f in range(F):
        for idx in np.ndindex(*graphs[f].shape):
            impl = arr[(f,) + idx]
            ref = refs[f][idx]
            if impl.kind == "log" and ref.kind == "log":
                impl, ref = Val("lin", impl.re, impl.im, impl.mu), Val("lin", ref.re, ref.im, ref.mu)
            elif impl.kind != ref.kind:
                if impl.kind == "log":
                    ref = ref.exp()
                    impl = Val("lin", impl.re, impl.im, impl.mu)
                else:
                    impl = impl.exp()
                    ref = Val("lin", ref.re, ref.im, ref.mu)
            goal = eq_goal(impl, ref)
            r = sess.prove(goal, f"fold{f}{list(idx)}")
            if r == "cex":
                cex = sess.cex.pop()
                ov = {s.data: v for s, v in cex["env"].items() if s.op == "var"}
                ov.update(circuit_check.softmax_overrides(senv.ctx, cex["env"]))
                try:
                    if not circuit_check._goal_holds_numerically(goal, senv.ctx.env):
                        ov = {}
                except Exception:
                    pass
                st2, msg = _safe_concrete(name, F, fold, seed, ov)
                if st2 == "ok":
                    res["inconclusive"].append(f"fold{f}{list(idx)}: solver model not reproduced")
                else:
                    violation(st2, msg, ov)
                res["obligations"] += sess.obligations
                res["discharged"] += sess.discharged
                return _fin(res, desc, len(senv.param_vars), sess)
    viol = []
    circuit_check.check_obligations(sess, senv, "definedness", viol, desc)
    for v in viol:
        res["inconclusive"].append(f"definedness obligation '{v['why']}' has a solver model")
    return _fin(res, desc, len(senv.param_vars), sess)


def _safe_concrete(name, F, fold, seed, ov):
    try:
        return _run(name, F, fold, seed, ov, concrete=True)
    except AssertionError as e:
        return "declared-shape", str(e)
    except Exception as e:  # noqa
        tb = traceback.format_exc()
        return f"raises:{type(e).__name__}", f"real code raised {type(e).__name__}: {e} at {circuit_check.repo_frame(tb)}"


def _fin(res, desc, nparams, sess=None):
    if sess is not None:
        res["obligations"] = sess.obligations
        res["discharged"] = sess.discharged
        res["syntactic"] = sess.syntactic
        res["queries"] = sess.q.n_queries
        res["solver_s"] = sess.q.time
        res["inconclusive"].extend(sess.inconclusive)
    res["hash"] = case_hash([desc["builder"], desc["F"], desc["fold"]])
    res["nontrivial"] = nparams >= 2
    res["sample"] = {"builder": desc["builder"], "folds": desc["F"], "fold_flag": desc["fold"], "symbolic_leaf_entries": nparams}
    return res


def replay(rp):
    if "circuit" in rp:
        ok, msg, _ = circuit_check.concrete_eval(rp["circuit"], rp["semiring"], rp["fold"], rp["optimize"], rp["B"], rp.get("overrides", {}), rp.get("seed", 0), rp.get("monotone", False), None, rp.get("normalized", False), rp.get("oracle"))
        return ok, msg
    st, msg = _safe_concrete(rp["builder"], rp["F"], rp["fold"], rp.get("seed", 0), rp.get("overrides", {}))
    return st == "ok", msg


def cases(tier, seed):
    rnd = random.Random(seed)
    names = sorted(BUILDERS)
    out = []
    if tier == "quick":
        for i, n in enumerate(names):
            F = [1, 2, 3][(i + seed) % 3]
            out.append({"builder": n, "F": F, "fold": F > 1 or (i % 2 == 0)})
    else:
        for n in names:
            out.append({"builder": n, "F": 1, "fold": False})
            for F in (1, 2, 3):
                out.append({"builder": n, "F": F, "fold": True})
    for i, c in enumerate(_circuit_cases()):
        for sem in c.get("semirings") or (["sum-product", "lse-sum"] if tier != "quick" else [["sum-product", "lse-sum"][i % 2]]):
            d = {k: v for k, v in c.items() if k != "semirings"}
            d["semiring"] = sem
            out.append(d)
    return out

"""C09 -- operators refuse invalid inputs and results keep the promised structure."""
from __future__ import annotations

import time

import z3

from cvf import structs
from cvf.harness import case_hash
from cvf.symx import Explorer, SymInt, SymSet, patched_scope

PROPERTY = "C09"
LEVEL = "model_checking"
CASE_TIMEOUT = {"quick": 600, "thorough": 1800}
ENCODED = [
    "cirkit.symbolic.functional.integrate/multiply/differentiate/evidence/conjugate (precondition branches and result assembly)",
    "cirkit.symbolic.circuit.Circuit.from_operation/__init__/is_smooth/is_decomposable/is_structured_decomposable, are_compatible",
    "cirkit.symbolic.operators.* (layer rules called on symbolic scopes)",
    "cirkit.backend.torch.queries.IntegrateQuery.__init__/SamplingQuery.__init__ (structural checks)",
]
RULE = (
    "one case = (skeleton(s), operator): leaf variable ids, the integration scope / observed set (a symbolic set) and "
    "the order k are solver variables, so the operand ranges over smooth/non-smooth, decomposable/non-decomposable, "
    "compatible/incompatible circuits and valid/invalid arguments; the REAL operator runs on symbolic scopes (all "
    "paths); per path z3 decides: returned => preconditions hold (definitions over the leaf bit-vectors); "
    "StructuralPropertyError => structure really invalid; ValueError => argument really invalid; on return the result "
    "is smooth & decomposable, has the documented scope and number of outputs, SD preserved / compatible with both "
    "operands for multiply, all flags preserved by conjugate. states = paths."
)
BOUNDS = "skeletons of C08 (<= 3 products, <= 6 leaves), variable ids in [0,4), integration/observation sets = any subset of ids, order k in [-1,2]"
OUTSIDE = "numeric content of the results (C03-C07); larger DAGs"
ASSUMPTIONS = ["z3 bit-vector model of frozenset inside Scope", "the structural predicates themselves are the subject of C08"]
EXPLANATION = "path-exhaustive symbolic execution of the operators' precondition logic, z3 deciding each path"

N = 4


def _bv(name):
    return z3.BitVec(name, N)


def _mk_scope(z):
    from cirkit.utils.scope import Scope

    s = Scope([])
    s._set = SymSet(z)
    return s


def _flags(c):
    return (bool(c.is_smooth), bool(c.is_decomposable), bool(c.is_structured_decomposable))


def _run(skel_names, op, max_paths):
    from cirkit.symbolic import functional as SF
    from cirkit.symbolic.circuit import StructuralPropertyError, are_compatible
    from cirkit.symbolic.registry import OperatorSignatureNotFound

    res = {"status": "ok", "obligations": 0, "discharged": 0, "queries": 0, "solver_s": 0.0, "paths": 0, "violations": [], "inconclusive": []}
    skels = [structs.SKELETONS[s] for s in skel_names]
    varz = [[_bv(f"{'vw'[i]}{j}") for j in range(skels[i][2])] for i in range(len(skels))]
    ex = Explorer(N, max_paths=max_paths)
    for vs in varz:
        for v in vs:
            ex.assume(z3.ULT(v, N))
    zset = _bv("Z")  # integration scope / observed set
    kord = z3.BitVec("k", 3)  # order - 1  (k in {-1..2} -> encoded 0..3)
    ex.assume(z3.ULT(kord, 4))
    defs = [structs.Defs(skels[i][0], varz[i], N) for i in range(len(skels))]
    reach = [defs[i].reachable(skels[i][1]) for i in range(len(skels))]
    leaf = "poly" if op == "differentiate" else "cat"

    def scope_of(i):
        s = z3.BitVecVal(0, N)
        for o in skels[i][1]:
            s = s | defs[i].scope[o]
        return s

    def program():
        with patched_scope(N):
            a, _ = structs.build_circuit(skels[0][0], skels[0][1], lambda j: SymInt(varz[0][j]), leaf=leaf)
            out = {"raised": None}
            try:
                if op == "integrate":
                    r = SF.integrate(a, _mk_scope(zset))
                elif op == "integrate-all":
                    r = SF.integrate(a)
                elif op == "differentiate":
                    k = ex.concretize(kord) - 1
                    out["k"] = k
                    r = SF.differentiate(a, order=k)
                elif op == "evidence":
                    zs = SymSet(zset).concrete()
                    out["obs"] = sorted(zs)
                    r = SF.evidence(a, {v: 0 for v in zs})
                elif op == "conjugate":
                    r = SF.conjugate(a)
                elif op == "query":
                    # query-side guards: they read the structural properties handed over at compile time
                    import types

                    from cirkit.backend.torch.queries import IntegrateQuery, SamplingQuery

                    stub = types.SimpleNamespace(properties=a.properties, scope=a.scope)
                    outq = []
                    for Q in (IntegrateQuery, SamplingQuery):
                        try:
                            Q(stub)
                            outq.append("ok")
                        except ValueError:
                            outq.append("ValueError")
                    out["query"] = outq
                    return out
                elif op == "multiply":
                    b, _ = structs.build_circuit(skels[1][0], skels[1][1], lambda j: SymInt(varz[1][j]), leaf=leaf)
                    out["b"] = b
                    r = SF.multiply(a, b)
                else:
                    raise ValueError(op)
            except StructuralPropertyError:
                out["raised"] = "SPE"
                return out
            except ValueError:
                out["raised"] = "ValueError"
                return out
            except (NotImplementedError, OperatorSignatureNotFound, AssertionError):
                # a refusal for lack of a rule / unsupported shape of the operands (allowed: no circuit returned)
                out["raised"] = "NotImplemented"
                return out
            out["flags"] = _flags(r)
            out["scope"] = r.scope._set.z if isinstance(r.scope._set, SymSet) else None
            out["nout"] = len(r.outputs)
            out["nvars_a"] = None
            if op == "conjugate":
                out["flags_a"] = _flags(a)
            if op == "multiply":
                b = out["b"]
                out["sd_ops"] = (bool(a.is_structured_decomposable), bool(b.is_structured_decomposable))
                out["compat_r"] = (bool(are_compatible(r, a)), bool(are_compatible(r, b)), bool(are_compatible(a, r)))
            if op == "differentiate":
                # one block of partial derivatives per output layer, w.r.t. the variables of that output
                out["nvars_a"] = sum(len(a.layer_scope(o)) + 1 for o in a.outputs)
            return out

    t0 = time.time()
    results = ex.run(program)
    res["paths"] = ex.paths
    allv = [v for vs in varz for v in vs] + [zset, kord]

    def check(label, pc, bad, info):
        res["obligations"] += 1
        ex.with_pc(pc)
        m = ex.model([bad])
        if m is None:
            res["discharged"] += 1
            return
        assign = {str(v): m.eval(v, model_completion=True).as_long() for v in allv}
        rp = {"skeletons": skel_names, "op": op, "assign": assign, "label": label}
        ok, msg = replay(rp)
        if ok:
            res["inconclusive"].append(f"{label}: solver model {assign} not reproduced ({msg})")
            return
        res["violations"].append({"signature": f"{label}|{'+'.join(skel_names)}|{op}", "detail": msg, "replay": rp, "hash": case_hash(rp)})

    T_, F_ = z3.BoolVal(True), z3.BoolVal(False)
    sa = scope_of(0)
    valid_struct = z3.And(defs[0].smooth(reach[0]), defs[0].decomposable(reach[0]))
    for r, pc in results:
        raised = r["raised"]
        if op in ("integrate", "integrate-all", "differentiate"):
            if op == "integrate":
                valid_arg = z3.And(zset != 0, (zset & ~sa) == 0)
                want_scope = sa & ~zset
            elif op == "integrate-all":
                valid_arg = sa != 0
                want_scope = z3.BitVecVal(0, N)
            else:
                valid_arg = z3.BoolVal(r.get("k", 1) >= 1) if "k" in r else T_
                want_scope = sa
            if raised is None:
                check(f"{op}:returned-only-if-smooth-decomposable", pc, z3.Not(valid_struct), r)
                check(f"{op}:returned-only-if-argument-valid", pc, z3.Not(valid_arg), r)
                if not (r["flags"][0] and r["flags"][1]):
                    check(f"{op}:result-smooth-decomposable", pc, T_, r)
                else:
                    res["obligations"] += 1
                    res["discharged"] += 1
                if r["scope"] is not None:
                    check(f"{op}:result-scope", pc, r["scope"] != want_scope, r)
                if op == "differentiate":
                    want_n = r["nvars_a"]
                    if r["nout"] != want_n:
                        check(f"{op}:number-of-outputs", pc, T_, r)
                    else:
                        res["obligations"] += 1
                        res["discharged"] += 1
                elif r["nout"] != len(skels[0][1]):
                    check(f"{op}:number-of-outputs", pc, T_, r)
            elif raised == "SPE":
                check(f"{op}:structural-error-only-if-invalid-structure", pc, valid_struct, r)
            elif raised == "ValueError":
                check(f"{op}:value-error-only-if-invalid-argument", pc, valid_arg, r)
        elif op == "evidence":
            obs = r.get("obs", [])
            ov = 0
            for v in obs:
                ov |= 1 << v
            valid_arg = z3.And(z3.BoolVal(len(obs) > 0), (z3.BitVecVal(ov, N) & ~sa) == 0)
            if raised is None:
                check("evidence:returned-only-if-observation-valid", pc, z3.Not(valid_arg), r)
                if r["scope"] is not None:
                    check("evidence:result-scope", pc, r["scope"] != (sa & ~z3.BitVecVal(ov, N)), r)
                if r["nout"] != len(skels[0][1]):
                    check("evidence:number-of-outputs", pc, T_, r)
            elif raised == "ValueError":
                check("evidence:value-error-only-if-invalid-observation", pc, valid_arg, r)
        elif op == "query":
            for qn, o in zip(("IntegrateQuery", "SamplingQuery"), r["query"]):
                if o == "ok":
                    check(f"query:{qn}-accepted-only-if-smooth-decomposable", pc, z3.Not(valid_struct), r)
                else:
                    check(f"query:{qn}-rejected-only-if-invalid", pc, valid_struct, r)
        elif op == "conjugate":
            if raised is None:
                if r["flags"] != r["flags_a"]:
                    check("conjugate:preserves-flags", pc, T_, r)
                else:
                    res["obligations"] += 1
                    res["discharged"] += 1
                if r["scope"] is not None:
                    check("conjugate:result-scope", pc, r["scope"] != sa, r)
            elif raised != "NotImplemented":
                check("conjugate:never-refuses", pc, T_, r)
        elif op == "multiply":
            sb = scope_of(1)
            compat = defs[0].compatible_with(defs[1], reach[0], reach[1])
            if raised is None:
                check("multiply:returned-only-if-same-scope", pc, sa != sb, r)
                check("multiply:returned-only-if-compatible", pc, z3.Not(compat), r)
                if not (r["flags"][0] and r["flags"][1]):
                    check("multiply:result-smooth-decomposable", pc, T_, r)
                else:
                    res["obligations"] += 1
                    res["discharged"] += 1
                if r["sd_ops"] == (True, True):
                    if not r["flags"][2]:
                        check("multiply:structured-decomposability-preserved", pc, T_, r)
                    elif not all(r["compat_r"]):
                        check("multiply:result-compatible-with-operands", pc, T_, r)
                    else:
                        res["obligations"] += 1
                        res["discharged"] += 1
                if r["scope"] is not None:
                    check("multiply:result-scope", pc, r["scope"] != sa, r)
                if r["nout"] != len(skels[0][1]) * len(skels[1][1]):
                    check("multiply:number-of-outputs", pc, T_, r)
            elif raised == "SPE":
                # refusing is always allowed by C04; here: a refusal must not happen for identical,
                # valid, structured-decomposable operands with the same scope (sanity of the guard)
                pass
    if ex.unexplored:
        res["inconclusive"].append(f"{ex.unexplored} path prefixes left unexplored")
    res["queries"] = ex.n_queries
    res["solver_s"] = ex.time
    res["hash"] = case_hash([skel_names, op])
    res["nontrivial"] = True
    res["sample"] = {"skeletons": skel_names, "operator": op, "paths": ex.paths, "outcomes": sorted({str(r["raised"]) for r, _ in results}), "wall_s": round(time.time() - t0, 2)}
    if res["violations"]:
        res["status"] = "violation"
    return res


def replay(rp):
    """re-run the operator on the concrete scopes of the model and re-evaluate the failing relation"""
    from cirkit.symbolic import functional as SF
    from cirkit.symbolic.circuit import StructuralPropertyError, are_compatible
    from cirkit.utils.scope import Scope
    from checks.C08 import _concrete_defs

    names, op, a_, label = rp["skeletons"], rp["op"], rp["assign"], rp["label"]
    skels = [structs.SKELETONS[s] for s in names]
    leaf = "poly" if op == "differentiate" else "cat"
    va = [a_[f"v{j}"] for j in range(skels[0][2])]
    sc, _ = structs.build_circuit(skels[0][0], skels[0][1], lambda j: va[j], leaf=leaf)
    smooth, dec, splits = _concrete_defs(skels[0][0], skels[0][1], va)
    Z = frozenset(i for i in range(N) if (a_.get("Z", 0) >> i) & 1)
    k = a_.get("k", 2) - 1
    scope = frozenset(sc.scope)
    raised = None
    r = None
    try:
        if op == "integrate":
            r = SF.integrate(sc, Scope(Z))
        elif op == "integrate-all":
            r = SF.integrate(sc)
        elif op == "differentiate":
            r = SF.differentiate(sc, order=k)
        elif op == "evidence":
            r = SF.evidence(sc, {v: 0 for v in Z})
        elif op == "conjugate":
            r = SF.conjugate(sc)
        elif op == "query":
            import types

            from cirkit.backend.torch.queries import IntegrateQuery, SamplingQuery

            stub = types.SimpleNamespace(properties=sc.properties, scope=sc.scope)
            for Q in (IntegrateQuery, SamplingQuery):
                try:
                    Q(stub)
                    acc = True
                except ValueError:
                    acc = False
                if Q.__name__ in label and acc != (smooth and dec):
                    return False, f"{Q.__name__} on skeleton {names} ids {va}: accepted={acc} but smooth&decomposable={smooth and dec}"
            return True, "query guards consistent"
        elif op == "multiply":
            wa = [a_[f"w{j}"] for j in range(skels[1][2])]
            b, _ = structs.build_circuit(skels[1][0], skels[1][1], lambda j: wa[j], leaf=leaf)
            r = SF.multiply(sc, b)
    except StructuralPropertyError:
        raised = "SPE"
    except ValueError:
        raised = "ValueError"
    except (NotImplementedError, AssertionError):
        raised = "NotImplemented"
    except Exception as e:  # noqa
        if type(e).__name__ != "OperatorSignatureNotFound":
            raise
        raised = "NotImplemented"
    what = f"{op} on skeleton {names} ids {va}" + (f" Z={sorted(Z)}" if op in ("integrate", "evidence") else "") + (f" k={k}" if op == "differentiate" else "")
    if "returned-only-if-smooth-decomposable" in label:
        if raised is None and not (smooth and dec):
            return False, f"{what}: returned a circuit although the operand is not smooth and decomposable"
    if "returned-only-if-argument-valid" in label or "returned-only-if-observation-valid" in label:
        bad = (op in ("integrate", "evidence") and (not Z or not Z <= scope)) or (op == "differentiate" and k < 1) or (op == "integrate-all" and not scope)
        if raised is None and bad:
            return False, f"{what}: returned a circuit although the argument is invalid"
    if "structural-error-only-if" in label and raised == "SPE" and smooth and dec:
        return False, f"{what}: raised StructuralPropertyError although the operand is smooth and decomposable"
    if "value-error-only-if" in label and raised == "ValueError":
        ok_arg = (op in ("integrate", "evidence") and Z and Z <= scope) or (op == "differentiate" and k >= 1)
        if ok_arg:
            return False, f"{what}: raised ValueError although the argument is valid"
    if r is not None:
        if "result-smooth-decomposable" in label and not (r.is_smooth and r.is_decomposable):
            return False, f"{what}: result is not smooth and decomposable"
        if "result-scope" in label:
            want = scope - Z if op in ("integrate", "evidence") else (frozenset() if op == "integrate-all" else scope)
            if frozenset(r.scope) != want:
                return False, f"{what}: result scope {sorted(r.scope)} != {sorted(want)}"
        if "number-of-outputs" in label:
            want = sum(len(sc.layer_scope(o)) + 1 for o in sc.outputs) if op == "differentiate" else len(skels[0][1])
            if op == "multiply":
                want = len(skels[0][1]) * len(skels[1][1])
            if len(r.outputs) != want:
                return False, f"{what}: {len(r.outputs)} outputs, expected {want}"
        if "preserves-flags" in label and _flags(r) != _flags(sc):
            return False, f"{what}: flags {_flags(sc)} became {_flags(r)}"
        if op == "multiply":
            wa = [a_[f"w{j}"] for j in range(skels[1][2])]
            b, _ = structs.build_circuit(skels[1][0], skels[1][1], lambda j: wa[j], leaf=leaf)
            sm2, de2, sp2 = _concrete_defs(skels[1][0], skels[1][1], wa)
            if "returned-only-if-same-scope" in label and frozenset(b.scope) != scope:
                return False, f"{what}/{wa}: multiply returned for operands over different scopes"
            if "returned-only-if-compatible" in label:
                okc = smooth and dec and sm2 and de2 and all((s not in sp2) or len(splits[s] | sp2[s]) == 1 for s in splits)
                if not okc:
                    return False, f"{what}/{wa}: multiply returned a circuit for operands that are not compatible"
            if "structured-decomposability-preserved" in label and sc.is_structured_decomposable and b.is_structured_decomposable and not r.is_structured_decomposable:
                return False, f"{what}/{wa}: product of structured-decomposable operands is not structured-decomposable"
            if "result-compatible-with-operands" in label and not (are_compatible(r, sc) and are_compatible(r, b) and are_compatible(sc, r)):
                return False, f"{what}/{wa}: product is not reported compatible with its operands"
    if "never-refuses" in label and raised is not None:
        return False, f"{what}: conjugate raised {raised}"
    return True, f"{what}: consistent (raised={raised})"


def cases(tier, seed):
    out = []
    singles = ["P2", "S2", "P3", "NEST", "PCONST", "MULTI"] if tier == "quick" else list(structs.SKELETONS)
    for s in singles:
        for op in ("integrate", "integrate-all", "differentiate", "evidence", "conjugate", "query"):
            out.append({"skeletons": [s], "op": op})
    pairs = [("P2", "P2"), ("P2", "S2"), ("NEST", "NEST"), ("P3", "P3"), ("P2", "NEST"), ("PCONST", "P2"), ("MULTI", "P2")]
    if tier != "quick":
        pairs += [("P2P2", "P2P2"), ("NEST", "P3"), ("P3", "NEST"), ("P2P2", "P2")]
    for a, b in pairs:
        out.append({"skeletons": [a, b], "op": "multiply"})
    return out


def run_case(desc, seed, tier):
    return _run(desc["skeletons"], desc["op"], 2500 if tier == "quick" else 20000)

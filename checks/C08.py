"""C08 -- structural-property predicates agree with their definitions."""
from __future__ import annotations

import itertools
import json
import time

import z3

from cvf import structs
from cvf.harness import case_hash
from cvf.symx import Explorer, SymInt, patched_scope

PROPERTY = "C08"
LEVEL = "model_checking"
CASE_TIMEOUT = {"quick": 600, "thorough": 1800}
ENCODED = [
    "cirkit.symbolic.circuit.Circuit.__init__ (bottom-up scopes)",
    "cirkit.symbolic.circuit.Circuit.is_smooth/is_decomposable/is_structured_decomposable/is_omni_compatible",
    "cirkit.symbolic.circuit.are_compatible/_scope_factorizations/_are_compatible",
    "cirkit.utils.scope.Scope (all set operations, comparisons, hashing, iteration) on symbolic bit-vector sets",
]
RULE = (
    "one case = (circuit skeleton or pair of skeletons, question): the leaves' variable ids are symbolic (z3 "
    "bit-vectors, ids in [0,N)); the REAL predicates run on symbolic scopes, every Python branch forks on z3 "
    "feasibility (all paths explored); per path the reported answer is compared by z3 with the set-theoretic "
    "definition over the leaf bit-vectors (smooth/decomposable: iff; structured/compatible: reported => definition), "
    "and with the answer for a permuted product-input order, a renumbering of the variables and swapped arguments. "
    "states = explored paths; a path stands for all variable assignments satisfying its path condition. "
    "distinct = (skeleton, question); non-trivial = skeleton has a product."
)
BOUNDS = "skeletons with <= 3 products (arity <= 3), <= 3 sums, <= 6 leaves (incl. empty-scope leaves), variable ids in [0,5), all assignments of ids to leaves; <= 4000 paths per case"
OUTSIDE = "larger DAGs; RegionGraph.is_compatible (numpy eigenvalues: concretised, not claimed)"
ASSUMPTIONS = [
    "z3 bit-vector model of frozenset (set algebra, subset order, equality); hash collisions resolved through the real __eq__",
    "iteration over a symbolic scope concretises it under the path condition (forking over all values) and uses CPython's real frozenset order",
]
EXPLANATION = "path-exhaustive symbolic execution of the predicates with z3 deciding each path's assertion"

N = 5


def _vars(k, prefix="v"):
    return [z3.BitVec(f"{prefix}{j}", N) for j in range(k)]


def _run(skel_names, question, max_paths, nbits=None):
    global N
    if nbits:
        N = nbits
    res = {"status": "ok", "obligations": 0, "discharged": 0, "queries": 0, "solver_s": 0.0, "paths": 0, "violations": [], "inconclusive": []}
    skels = [structs.SKELETONS[s] for s in skel_names]
    nv = [s[2] for s in skels]
    prefixes = ["v", "w"] if question in ("compat", "compat-sym") and len(skels) == 2 else ["v"] * len(skels)
    if question in ("compat", "compat-sym") and len(skels) == 2:
        # the two circuits draw their variables from the same pool of ids (independent symbols)
        varz = [_vars(nv[0], "v"), _vars(nv[1], "w")]
    else:
        varz = [_vars(nv[0], "v")]
    ex = Explorer(N, max_paths=max_paths)
    for vs in varz:
        for v in vs:
            ex.assume(z3.ULT(v, N))
    defs = [structs.Defs(skels[i][0], varz[i], N) for i in range(len(varz))]
    reach = [defs[i].reachable(skels[i][1]) for i in range(len(varz))]

    def prod_perms(skel):
        return _perms(skel, question)

    def program():
        from cirkit.symbolic.circuit import are_compatible

        with patched_scope(N):
            if question == "flags":
                sc, _ = structs.build_circuit(skels[0][0], skels[0][1], lambda j: SymInt(varz[0][j]))
                return (sc.is_smooth, sc.is_decomposable, sc.is_structured_decomposable)
            if question in ("perm", "perm1"):
                sc, _ = structs.build_circuit(skels[0][0], skels[0][1], lambda j: SymInt(varz[0][j]))
                sc2, _ = structs.build_circuit(skels[0][0], skels[0][1], lambda j: SymInt(varz[0][j]), perm=prod_perms(skels[0][0]))
                return (
                    (sc.is_smooth, sc.is_decomposable, sc.is_structured_decomposable),
                    (sc2.is_smooth, sc2.is_decomposable, sc2.is_structured_decomposable),
                )
            if question == "renumber":
                # ids v -> N-1-v
                sc, _ = structs.build_circuit(skels[0][0], skels[0][1], lambda j: SymInt(varz[0][j]))
                sc2, _ = structs.build_circuit(skels[0][0], skels[0][1], lambda j: SymInt(z3.BitVecVal(N - 1, N) - varz[0][j]))
                return (
                    (sc.is_smooth, sc.is_decomposable, sc.is_structured_decomposable),
                    (sc2.is_smooth, sc2.is_decomposable, sc2.is_structured_decomposable),
                )
            if question == "compat":
                a, _ = structs.build_circuit(skels[0][0], skels[0][1], lambda j: SymInt(varz[0][j]))
                b, _ = structs.build_circuit(skels[1][0], skels[1][1], lambda j: SymInt(varz[1][j]))
                return (are_compatible(a, b), are_compatible(b, a))
            if question in ("self-compat", "self-compat1"):
                a, _ = structs.build_circuit(skels[0][0], skels[0][1], lambda j: SymInt(varz[0][j]))
                a2, _ = structs.build_circuit(skels[0][0], skels[0][1], lambda j: SymInt(varz[0][j]), perm=prod_perms(skels[0][0]))
                return (are_compatible(a, a2), are_compatible(a2, a), a.is_structured_decomposable)
            raise ValueError(question)

    t0 = time.time()
    results = ex.run(program)
    res["paths"] = ex.paths
    res["states"] = ex.paths
    allv = [v for vs in varz for v in vs]

    def check(label, pc, bad):
        """bad: z3 formula describing a disagreement on this path; sat => violation"""
        res["obligations"] += 1
        m = ex_model(ex, pc, bad)
        if m is None:
            res["discharged"] += 1
            return
        assign = {str(v): m.eval(v, model_completion=True).as_long() for v in allv}
        ok, msg = replay({"skeletons": skel_names, "question": question, "assign": assign, "label": label, "N": N})
        if ok:
            res["inconclusive"].append(f"{label}: solver model {assign} not reproduced on the real code")
            return
        sig = f"{label}|{'+'.join(skel_names)}|{question}"
        rp = {"skeletons": skel_names, "question": question, "assign": assign, "label": label, "N": N}
        res["violations"].append({"signature": sig, "detail": msg, "replay": rp, "hash": case_hash(rp)})

    for r, pc in results:
        if question == "flags":
            sm, de, sd = r
            d = defs[0]
            check("smooth-iff-def", pc, d.smooth(reach[0]) != z3.BoolVal(sm))
            check("decomposable-iff-def", pc, d.decomposable(reach[0]) != z3.BoolVal(de))
            if sd:
                check("structured-implies-def", pc, z3.Not(d.structured(reach[0])))
        elif question in ("perm", "perm1", "renumber"):
            r1, r2 = r
            names = ["smooth", "decomposable", "structured"]
            for k in range(3):
                if r1[k] != r2[k]:
                    check(f"{names[k]}-invariant-under-{question}", pc, z3.BoolVal(True))
                else:
                    res["obligations"] += 1
                    res["discharged"] += 1
        elif question == "compat":
            ab, ba = r
            if ab != ba:
                check("compatible-symmetric", pc, z3.BoolVal(True))
            else:
                res["obligations"] += 1
                res["discharged"] += 1
            if ab:
                check("compatible-implies-def", pc, z3.Not(defs[0].compatible_with(defs[1], reach[0], reach[1])))
            if ba:
                check("compatible-implies-def(swapped)", pc, z3.Not(defs[1].compatible_with(defs[0], reach[1], reach[0])))
        elif question in ("self-compat", "self-compat1"):
            ab, ba, sd = r
            if ab != ba:
                check("compatible-symmetric(perm)", pc, z3.BoolVal(True))
            elif ab != sd:
                check("self-compatible-equals-structured", pc, z3.BoolVal(True))
            else:
                res["obligations"] += 1
                res["discharged"] += 1
    if ex.unexplored:
        res["inconclusive"].append(f"{ex.unexplored} path prefixes left unexplored (budget {max_paths})")
    res["queries"] = ex.n_queries
    res["solver_s"] = ex.time
    res["transitions"] = ex.n_queries
    res["hash"] = case_hash([skel_names, question])
    res["nontrivial"] = any(n[0] == "prod" for s in skels for n in s[0])
    res["sample"] = {"skeletons": skel_names, "question": question, "paths": ex.paths, "variable_ids": f"[0,{N})", "wall_s": round(time.time() - t0, 2)}
    if res["violations"]:
        res["status"] = "violation"
    return res


def _perms(skel, question):
    """'perm'/'self-compat': every product lists its inputs in reverse order; 'perm1'/'self-compat1': only the
    first product does (so two products over the same scope may list their inputs differently)"""
    perms = {}
    for i, n in enumerate(skel):
        if n[0] == "prod":
            perms[i] = list(reversed(range(len(n[1]))))
            if question.endswith("1"):
                break
    return perms


def ex_model(ex, pc, bad):
    ex.with_pc(pc)
    return ex.model([bad])


def _concrete_defs(skel, outs, assign_list):
    """python evaluation of the definitions on concrete ids"""
    scope = []
    for n in skel:
        if n[0] == "leaf":
            scope.append(frozenset([assign_list[n[1]]]))
        elif n[0] == "const":
            scope.append(frozenset())
        else:
            s = frozenset()
            for c in n[1]:
                s |= scope[c]
            scope.append(s)
    reach = set()
    st = list(outs)
    while st:
        i = st.pop()
        if i in reach:
            continue
        reach.add(i)
        if skel[i][0] in ("sum", "prod"):
            st.extend(skel[i][1])
    smooth = all(scope[c] == scope[i] for i, n in enumerate(skel) if n[0] == "sum" and i in reach for c in n[1])
    dec = all(not (scope[a] & scope[b]) for i, n in enumerate(skel) if n[0] == "prod" and i in reach for a, b in itertools.combinations(n[1], 2))
    splits = {}
    for i, n in enumerate(skel):
        if n[0] == "prod" and i in reach:
            parts = frozenset(scope[c] for c in n[1] if scope[c])
            if len([c for c in n[1] if scope[c]]) >= 2:
                splits.setdefault(scope[i], set()).add(parts)
    return smooth, dec, splits


def replay(rp):
    from cirkit.symbolic.circuit import are_compatible

    global N
    if rp.get("N"):
        N = rp["N"]

    names = rp["skeletons"]
    q = rp["question"]
    a = rp["assign"]
    skels = [structs.SKELETONS[s] for s in names]
    va = [a[f"v{j}"] for j in range(skels[0][2])]
    label = rp.get("label", "")

    def flags(sc):
        return (sc.is_smooth, sc.is_decomposable, sc.is_structured_decomposable)

    def perms(skel):
        return _perms(skel, q)

    sc, _ = structs.build_circuit(skels[0][0], skels[0][1], lambda j: va[j])
    smooth, dec, splits = _concrete_defs(skels[0][0], skels[0][1], va)
    sd_def = smooth and dec and all(len(v) == 1 for v in splits.values())
    if q == "flags":
        r = flags(sc)
        if label.startswith("smooth") and r[0] != smooth:
            return False, f"ids {va}: is_smooth={r[0]} but definition says {smooth}"
        if label.startswith("decomposable") and r[1] != dec:
            return False, f"ids {va}: is_decomposable={r[1]} but definition says {dec}"
        if label.startswith("structured") and r[2] and not sd_def:
            return False, f"ids {va}: reported structured-decomposable but products over the same scope split it differently"
        return True, f"ids {va}: predicates {r} agree with the definitions"
    if q in ("perm", "perm1", "renumber"):
        if q in ("perm", "perm1"):
            sc2, _ = structs.build_circuit(skels[0][0], skels[0][1], lambda j: va[j], perm=perms(skels[0][0]))
        else:
            sc2, _ = structs.build_circuit(skels[0][0], skels[0][1], lambda j: N - 1 - va[j])
        r1, r2 = flags(sc), flags(sc2)
        if r1 != r2:
            return False, f"ids {va}: (smooth, decomposable, structured)={r1} but {r2} after {q}"
        return True, f"ids {va}: answers {r1} unchanged by {q}"
    if q == "compat":
        wa = [a[f"w{j}"] for j in range(skels[1][2])]
        b, _ = structs.build_circuit(skels[1][0], skels[1][1], lambda j: wa[j])
        ab, ba = are_compatible(sc, b), are_compatible(b, sc)
        if ab != ba:
            return False, f"ids {va}/{wa}: are_compatible(a,b)={ab} but are_compatible(b,a)={ba}"
        sm2, de2, sp2 = _concrete_defs(skels[1][0], skels[1][1], wa)
        ok_def = smooth and dec and sm2 and de2 and all(
            (s not in sp2) or (len(splits[s] | sp2[s]) == 1) for s in splits
        )
        if ab and not ok_def:
            return False, f"ids {va}/{wa}: reported compatible but products over a common scope split it differently (or a circuit is not smooth/decomposable)"
        return True, f"ids {va}/{wa}: are_compatible symmetric ({ab}) and consistent with the definition"
    if q in ("self-compat", "self-compat1"):
        a2, _ = structs.build_circuit(skels[0][0], skels[0][1], lambda j: va[j], perm=perms(skels[0][0]))
        ab, ba, sd = are_compatible(sc, a2), are_compatible(a2, sc), sc.is_structured_decomposable
        if ab != ba:
            return False, f"ids {va}: are_compatible(c, c')={ab} != are_compatible(c', c)={ba} (c' = c with product inputs listed in another order)"
        if ab != sd:
            return False, f"ids {va}: is_structured_decomposable={sd} but are_compatible(c, c')={ab} for c' = c with product inputs listed in another order"
        return True, f"ids {va}: consistent"
    return True, "unknown question"


def cases(tier, seed):
    names = list(structs.SKELETONS)
    out = []
    quick_single = ["P2", "P2P2", "P3", "NEST", "PCONST", "MULTI", "TWOWAYS3"]
    single = quick_single if tier == "quick" else names
    for s in single:
        for q in ("flags", "perm", "perm1", "renumber", "self-compat", "self-compat1"):
            out.append({"skeletons": [s], "question": q})
    pairs = [("P2", "NEST"), ("NEST", "P2"), ("P2", "P2"), ("P2", "P2P2"), ("P2P2", "P2"), ("PCONST", "P2"), ("P3", "P3"), ("TWOWAYS3", "TWOWAYS3")]
    if tier != "quick":
        pairs += [("NEST", "P3"), ("P3", "NEST"), ("NEST", "NEST"), ("P2P2", "P2P2"), ("MULTI", "NEST"), ("PCONST2", "P2P2")]
    for a, b in pairs:
        out.append({"skeletons": [a, b], "question": "compat"})
    nb = 4 if tier == "quick" else 5
    for c in out:
        c["N"] = nb
    return out


def run_case(desc, seed, tier):
    return _run(desc["skeletons"], desc["question"], 1500 if tier == "quick" else 20000, desc.get("N"))

"""C20 -- model templates compute the formulas they document."""
from __future__ import annotations

import itertools
import random

import numpy as np

from cirkit.symbolic import layers as SL
from cirkit.templates.utils import Parameterization

from checks import _ops
from cvf import circuit_check, families, refsem
from cvf import terms as T
from cvf.harness import case_hash
from cvf.vals import Val

PROPERTY = "C20"
LEVEL = "translation_validation"
CASE_TIMEOUT = {"quick": 600, "thorough": 1800}
ENCODED = [
    "cirkit.templates.tensor_factorizations.cp/tucker/tensor_train",
    "cirkit.templates.pgms.hmm/fully_factorized",
    "cirkit.templates.logic.graph.LogicalCircuit.smooth/prune/build_circuit, cirkit.templates.logic.utils.default_literal_input_factory",
    "cirkit.templates.utils.parameterization_to_factory/name_to_input_layer_factory",
    "cirkit.symbolic.functional.integrate (model count)",
    "cirkit.backend.torch.compiler + layers + parameter nodes (as C01)",
]
RULE = (
    "one case = (template call, semiring).  The template's circuit is compiled (two flag pairs in quick, four in "
    "thorough) and executed symbolically with all factor / weight tensors and all index tuples as solver variables; "
    "z3 decides equality with the DOCUMENTED formula written directly over the factor tensors (which are looked up by "
    "the variable id of the input layer that holds them, never through the circuit's wiring): CP sum_i w_i prod_j "
    "A_j[x_j,i]; Tucker sum_{r} W[r_1..r_n] prod_j A_j[x_j,r_j] (row-major core); tensor train V1[x_1,:] M_2[x_2] .. "
    "M_{n-1}[x_{n-1}] V_n[x_n,:]; HMM sum over latent paths pi[z_0] prod_t T_t[z_{t-1},z_t] prod_t e_{ordering[t]}"
    "(x_{ordering[t]} | z_t) with T_t the (softmax) table of the sum whose scope is the suffix ordering[t:]; "
    "fully factorised prod_v e_v(x_v).  Structural pre-check: the input layer of variable v was built with the "
    "per-variable arguments given for variable id v.  Logic circuits (deterministic decision graphs built by "
    "Shannon expansion from a truth table, shared sub-functions, Top/Bottom leaves) keep their default constant "
    "parameters; z3 decides value(assignment) == truth table[assignment] for all assignments and the compiled "
    "integral == model count.  distinct = (descriptor, semiring)."
)
BOUNDS = "quick: tensor orders 2-4 with dims <= 3, rank <= 2 (Tucker <= 3 modes); HMM over <= 4 variables (all orderings of 3, a sample of 4), <= 2 latent states; thorough adds orders up to 5, dims <= 4, rank <= 3, all 24 orderings of 4 variables and 10 of 5, 3 latent states, 130 more formulas over <= 5 variables, categorical (per-variable category counts) and Gaussian emissions; fully factorised <= 4 variables; logic formulas over <= 4 variables"
OUTSIDE = "binomial inputs; logic circuits in the log-space semirings (exact zeros are clamped to the smallest float: not modelled by the shadow algebra); SDD file parsing; constant formulas (no circuit is built for Top/Bottom); non-deterministic logic graphs (the circuit then counts proofs, not truth); float rounding"
ASSUMPTIONS = _ops.COMMON_ASSUMPTIONS + [
    "tensor-train factor tensors: V_j[x,a,b] is entry [a,x] of the b-th embedding layer of variable j (the identification the template's comments describe)",
    "logic circuits are deterministic and decomposable (decision graphs), as produced by an SDD compiler",
]
EXPLANATION = "documented contraction / joint / truth table decided equal to the compiled circuit by z3 for all parameter values and index tuples"


def _param(d):
    if d is None:
        return None
    return Parameterization(activation=d.get("activation", "none"), initialization=d.get("initialization", "normal"), dtype=d.get("dtype", "real"))


def _truth_to_graph(tt, n):
    from cirkit.templates.logic.graph import BottomNode, ConjunctionNode, DisjunctionNode, LiteralNode, LogicalCircuit, NegatedLiteralNode, TopNode

    lits = {}
    in_nodes = {}
    memo = {}
    top, bot = TopNode(), BottomNode()

    def lit(i, pos):
        if (i, pos) not in lits:
            lits[(i, pos)] = LiteralNode(i) if pos else NegatedLiteralNode(i)
        return lits[(i, pos)]

    def rec(i, bits):
        # bits: truth table over variables i..n-1 (variable i most significant)
        if all(bits):
            return top
        if not any(bits):
            return bot
        key = (i, tuple(bits))
        if key in memo:
            return memo[key]
        half = len(bits) // 2
        lo, hi = bits[:half], bits[half:]
        if i == n - 1:
            node = lit(i, True) if hi[0] else lit(i, False)
            memo[key] = node
            return node
        d = DisjunctionNode()
        kids = []
        for pos, sub in ((True, hi), (False, lo)):
            c = ConjunctionNode()
            in_nodes[c] = [lit(i, pos), rec(i + 1, sub)]
            kids.append(c)
        in_nodes[d] = kids
        memo[key] = d
        return d

    root = rec(0, list(tt))
    nodes = list(set(itertools.chain(*in_nodes.values())).union(in_nodes.keys()))
    if root not in nodes:
        nodes.append(root)
    return LogicalCircuit(nodes, in_nodes, [root])


def build(d):
    k = d["kind"]
    if k == "pipe":
        import cirkit.symbolic.functional as SF

        sc = build(d["base"])
        for op in d["ops"]:
            assert op[0] == "integrate"
            sc = SF.integrate(sc)
        return sc
    if k in ("cp", "tucker", "tt"):
        from cirkit.templates import tensor_factorizations as TF

        shape = tuple(d["shape"])
        if k == "cp":
            return TF.cp(shape, d["rank"], input_layer=d.get("input", "embedding"), input_params={n: _param(p) for n, p in d["input_params"].items()} if d.get("input_params") else None, weight_param=_param(d.get("weight")))
        if k == "tucker":
            return TF.tucker(shape, d["rank"], input_layer=d.get("input", "embedding"), input_params={n: _param(p) for n, p in d["input_params"].items()} if d.get("input_params") else None, core_param=_param(d.get("weight")))
        return TF.tensor_train(shape, d["rank"], factor_param=_param(d.get("weight")))
    if k == "hmm":
        from cirkit.templates.pgms import hmm

        return hmm(d["ordering"], input_layer=d["input"], num_latent_states=d.get("K", 2), input_layer_kwargs=d.get("kwargs"), weight_param=_param(d.get("weight")))
    if k == "ff":
        from cirkit.templates.pgms import fully_factorized

        return fully_factorized(d["n"], input_layer=d["input"], input_layer_kwargs=d.get("kwargs"))
    if k == "logic":
        g = _truth_to_graph(d["tt"], d["n"])
        return g.build_circuit(enforce_smoothness=d.get("smooth", True))
    raise ValueError(k)


# ---------------------------------------------------------------------------------------------
# the documented formulas
# ---------------------------------------------------------------------------------------------


def _inputs_of(sc):
    by = {}
    for sl in sc.layers:
        if isinstance(sl, SL.InputLayer):
            (v,) = tuple(sl.scope)
            by.setdefault(v, []).append(sl)
    return by


def _vsum(ts):
    acc = None
    for t in ts:
        acc = t if acc is None else acc + t
    return acc if acc is not None else Val.const(0.0)


def _the_sum(sc, scope=None):
    c = [sl for sl in sc.layers if isinstance(sl, SL.SumLayer) and (scope is None or set(sc.layer_scope(sl)) == set(scope))]
    if len(c) != 1:
        raise LookupError(f"expected exactly one sum layer{'' if scope is None else ' with scope ' + str(sorted(scope))}, found {len(c)}")
    return c[0]


def oracle(d, sc, senv, rows):
    penv = senv.penv
    k = d["kind"]
    out = []
    for row in rows:
        if k == "pipe":
            # model count of the base formula
            nfree = d["base"]["n"] - len(sc.operation.operands[0].scope)  # variables the formula does not mention are not in the circuit
            out.append([np.asarray([Val.const(float(sum(d["base"]["tt"])) / 2**nfree)], dtype=object)])
            continue
        by = _inputs_of(sc) if k != "logic" else {}
        if k == "cp":
            n, R = len(d["shape"]), d["rank"]
            w = refsem.eval_parameter(_the_sum(sc).weight, penv)
            e = [refsem.eval_input_layer(by[j][0], row, penv) for j in range(n)]
            val = _vsum([w[0, i] * _prod([e[j][i] for j in range(n)]) for i in range(R)])
        elif k == "tucker":
            n, R = len(d["shape"]), d["rank"]
            w = refsem.eval_parameter(_the_sum(sc).weight, penv)
            e = [refsem.eval_input_layer(by[j][0], row, penv) for j in range(n)]
            terms = []
            for rs in itertools.product(range(R), repeat=n):
                flat = 0
                for r in rs:
                    flat = flat * R + r
                terms.append(w[0, flat] * _prod([e[j][rs[j]] for j in range(n)]))
            val = _vsum(terms)
        elif k == "tt":
            n, R = len(d["shape"]), d["rank"]
            vec = list(refsem.eval_input_layer(by[0][0], row, penv))
            for j in range(1, n - 1):
                if len(by[j]) != R:
                    raise LookupError(f"variable {j}: expected {R} embedding layers, found {len(by[j])}")
                cols = [refsem.eval_input_layer(L, row, penv) for L in by[j]]  # cols[b][a] = V_j[x, a, b]
                vec = [_vsum([vec[a] * cols[b][a] for a in range(R)]) for b in range(R)]
            last = refsem.eval_input_layer(by[n - 1][0], row, penv)
            val = _vsum([vec[a] * last[a] for a in range(R)])
        elif k == "hmm":
            order = d["ordering"]
            n, K = len(order), d.get("K", 2)
            e = [refsem.eval_input_layer(by[order[t]][0], row, penv) for t in range(n)]
            W = [refsem.eval_parameter(_the_sum(sc, order[t:]).weight, penv) for t in range(n)]
            terms = []
            for z in itertools.product(range(K), repeat=n):
                fs = [W[0][0, z[0]]]
                for t in range(1, n):
                    fs.append(W[t][z[t - 1], z[t]])
                fs.extend(e[t][z[t]] for t in range(n))
                terms.append(_prod(fs))
            val = _vsum(terms)
        elif k == "ff":
            val = _prod([refsem.eval_input_layer(by[v][0], row, penv)[0] for v in range(d["n"])])
        elif k == "logic":
            n = d["n"]
            tt = d["tt"]

            def sel(i, bits):
                if len(bits) == 1:
                    return Val.const(float(bits[0]))
                half = len(bits) // 2
                if i not in row:
                    # variable does not occur in the circuit: the formula must not depend on it
                    return sel(i + 1, bits[:half])
                return Val.where(row[i].eq(1), sel(i + 1, bits[half:]), sel(i + 1, bits[:half]))

            val = sel(0, list(tt))
        else:
            raise ValueError(k)
        out.append([np.asarray([val], dtype=object)])
    return out


def _prod(ts):
    acc = None
    for t in ts:
        acc = t if acc is None else acc * t
    return acc


circuit_check.ORACLES["template"] = oracle


# ---------------------------------------------------------------------------------------------


def _all(tier):
    out = []
    sm = {"activation": "softmax", "initialization": "normal"}
    for shape in ([2, 3], [3, 2, 2], [2, 2, 3, 2]):
        for rank in (1, 2):
            out.append({"kind": "cp", "shape": shape, "rank": rank})
            out.append({"kind": "cp", "shape": shape, "rank": rank, "weight": {"activation": "none"}})
            out.append({"kind": "tt", "shape": shape, "rank": rank})
    out.append({"kind": "cp", "shape": [3, 2], "rank": 2, "input": "categorical", "input_params": {"probs": sm}, "weight": sm})
    out.append({"kind": "cp", "shape": [2, 3, 2], "rank": 2, "input": "categorical", "weight": sm})
    for shape in ([2, 3], [3, 2, 2]):
        for rank in (1, 2):
            out.append({"kind": "tucker", "shape": shape, "rank": rank})
    out.append({"kind": "tucker", "shape": [2, 3], "rank": 2, "input": "categorical", "input_params": {"probs": sm}, "weight": sm})
    out.append({"kind": "tt", "shape": [2, 3, 2, 2, 2], "rank": 2})
    out.append({"kind": "tt", "shape": [3, 3], "rank": 3})
    cats = [{"num_categories": 2}, {"num_categories": 3}, {"num_categories": 4}, {"num_categories": 2}]
    for order in itertools.permutations(range(3)):
        out.append({"kind": "hmm", "ordering": list(order), "input": "categorical", "K": 2, "kwargs": cats[:3]})
    for order in ([0, 1, 2, 3], [3, 2, 1, 0], [1, 2, 0, 3], [2, 3, 1, 0], [3, 0, 2, 1], [1, 0, 3, 2]):
        out.append({"kind": "hmm", "ordering": order, "input": "categorical", "K": 2, "kwargs": cats})
    out.append({"kind": "hmm", "ordering": [2, 0, 1], "input": "gaussian", "K": 2})
    out.append({"kind": "hmm", "ordering": [1, 0], "input": "categorical", "K": 2, "kwargs": {"num_categories": 3}})
    out.append({"kind": "hmm", "ordering": [0], "input": "categorical", "K": 2, "kwargs": {"num_categories": 3}})
    out.append({"kind": "hmm", "ordering": [1, 2, 0], "input": "categorical", "K": 1, "kwargs": cats[:3]})
    out.append({"kind": "hmm", "ordering": [2, 1, 0], "input": "categorical", "K": 2, "kwargs": cats[:3], "weight": {"activation": "none"}})
    out.append({"kind": "ff", "n": 3, "input": "categorical", "kwargs": cats[:3]})
    out.append({"kind": "ff", "n": 4, "input": "categorical", "kwargs": cats})
    out.append({"kind": "ff", "n": 1, "input": "categorical", "kwargs": {"num_categories": 3}})
    out.append({"kind": "ff", "n": 3, "input": "gaussian"})
    rnd = random.Random(20)
    seen = set()
    for n in (2, 3, 4):
        for _ in range({2: 6, 3: 10, 4: 10}[n]):
            tt = tuple(rnd.randrange(2) for _ in range(2**n))
            if all(tt) or not any(tt) or tt in seen:
                continue
            seen.add(tt)
            out.append({"kind": "logic", "n": n, "tt": list(tt)})
    # formulas that do not depend on some variable, xor chains, single literal
    out.append({"kind": "logic", "n": 3, "tt": [0, 1, 1, 0, 1, 0, 0, 1]})
    out.append({"kind": "logic", "n": 3, "tt": [0, 0, 1, 1, 0, 0, 1, 1]})
    out.append({"kind": "logic", "n": 2, "tt": [0, 0, 1, 1]})
    out.append({"kind": "logic", "n": 3, "tt": [0, 1, 0, 1, 1, 1, 1, 1]})
    if tier != "quick":
        out.extend(_deep())
    return out


def _deep():
    """thorough tier: larger shapes / ranks, every ordering of 4 variables, more formulas"""
    out = []
    sm = {"activation": "softmax", "initialization": "normal"}
    for shape in ([4, 2], [2, 4, 3], [3, 3, 2, 2], [2, 2, 2, 2, 2]):
        for rank in (1, 2, 3):
            out.append({"kind": "cp", "shape": shape, "rank": rank, "weight": {"activation": "none"}})
            out.append({"kind": "tt", "shape": shape, "rank": rank})
    for shape in ([4, 2], [2, 4, 3], [2, 2, 2, 2]):
        for rank in (2, 3):
            if rank ** len(shape) <= 27:
                out.append({"kind": "tucker", "shape": shape, "rank": rank})
    out.append({"kind": "cp", "shape": [2, 3, 2], "rank": 3, "input": "categorical", "input_params": {"probs": sm}, "weight": sm})
    cats = [{"num_categories": 2}, {"num_categories": 3}, {"num_categories": 4}, {"num_categories": 2}, {"num_categories": 3}]
    for order in itertools.permutations(range(4)):
        out.append({"kind": "hmm", "ordering": list(order), "input": "categorical", "K": 2, "kwargs": cats[:4]})
    rnd = random.Random(99)
    for _ in range(10):
        order = list(range(5))
        rnd.shuffle(order)
        out.append({"kind": "hmm", "ordering": order, "input": "categorical", "K": 2, "kwargs": cats})
    for order in ([2, 0, 3, 1], [3, 1, 0, 2]):
        out.append({"kind": "hmm", "ordering": order, "input": "categorical", "K": 3, "kwargs": cats[:4]})
    # Gaussian emissions: three variables (with four the exponent-atom lemmas no longer close the identity)
    for order in ([1, 2, 0], [2, 1, 0], [0, 2, 1]):
        out.append({"kind": "hmm", "ordering": order, "input": "gaussian", "K": 2})
    out.append({"kind": "ff", "n": 5, "input": "categorical", "kwargs": cats})
    seen = set()
    for n, cnt in ((3, 30), (4, 60), (5, 40)):
        k = 0
        while k < cnt:
            tt = tuple(rnd.randrange(2) for _ in range(2**n))
            if all(tt) or not any(tt) or tt in seen:
                continue
            seen.add(tt)
            out.append({"kind": "logic", "n": n, "tt": list(tt)})
            k += 1
    return out


def cases(tier, seed):
    rnd = random.Random(seed)
    allc = _all(tier)
    sems = ["sum-product", "lse-sum", "complex-lse-sum"]
    out = []

    def add(c, s):
        if c["kind"] == "logic" and s != "sum-product":
            # exact zeros in the log-space semirings go through a clamp to the smallest float: not modelled
            s = "sum-product"
        out.append({"circuit": c, "semiring": s})
        if c["kind"] == "logic":
            out.append({"circuit": {"kind": "pipe", "base": c, "ops": [["integrate", None]]}, "semiring": s})

    if tier == "quick":
        core = [c for c in allc if c["kind"] in ("hmm", "ff") or (c["kind"] in ("cp", "tucker", "tt") and len(c["shape"]) == 3 and c["rank"] == 2)]
        rest = [c for c in allc if c not in core]
        rnd.shuffle(rest)
        for i, c in enumerate(core + rest[:14]):
            add(c, sems[(i + seed) % 3])
    else:
        for c in allc:
            for s in sems:
                if c["kind"] == "logic" and s != "sum-product":
                    continue
                add(c, s)
    return out


def _structure_problems(d, sc):
    """per-variable arguments reach the input layer of that variable id"""
    probs = []
    k = d["kind"]
    if k in ("hmm", "ff"):
        nvars = len(d["ordering"]) if k == "hmm" else d["n"]
        by = _inputs_of(sc)
        if set(by) != set(range(nvars)):
            probs.append(f"input layers cover variables {sorted(by)}, requested {list(range(nvars))}")
        kw = d.get("kwargs")
        for v in range(nvars):
            want = kw[v] if isinstance(kw, list) else (kw or {})
            for L in by.get(v, []):
                for name, val in want.items():
                    if getattr(L, name, None) != val:
                        probs.append(f"variable {v}: input layer has {name}={getattr(L, name, None)}, the arguments given for variable {v} say {name}={val}")
            if len(by.get(v, [])) != 1:
                probs.append(f"variable {v} has {len(by.get(v, []))} input layers")
        if k == "hmm":
            # the chain follows the requested ordering: one sum layer per suffix ordering[t:]
            order = d["ordering"]
            for t in range(len(order)):
                try:
                    _the_sum(sc, order[t:])
                except LookupError as e:
                    probs.append(f"chain position {t}: {e}")
    if k in ("cp", "tucker", "tt"):
        by = _inputs_of(sc)
        for j, dim in enumerate(d["shape"]):
            for L in by.get(j, []):
                got = getattr(L, "num_states", None) or getattr(L, "num_categories", None)
                if got != dim:
                    probs.append(f"mode {j}: input layer has {got} states, the tensor shape says {dim}")
        if set(by) != set(range(len(d["shape"]))):
            probs.append(f"input layers cover variables {sorted(by)}")
    if k == "logic":
        if not (sc.is_smooth and sc.is_decomposable) and d.get("smooth", True):
            probs.append(f"circuit is smooth={sc.is_smooth} decomposable={sc.is_decomposable}")
    return probs


def run_case(desc, seed, tier):
    c, sem = desc["circuit"], desc["semiring"]
    base = c["base"] if c["kind"] == "pipe" else c
    flags = [(False, False), (True, True)] if tier == "quick" else circuit_check.FLAGS
    T.reset_interning()
    try:
        sc0 = build(base)
    except Exception as e:  # noqa
        import traceback

        tb = traceback.format_exc()
        rp = {"kind": "structure", "circuit": c}
        return {"status": "violation", "violations": [{"signature": f"build-raises:{type(e).__name__}@{circuit_check.repo_frame(tb)}|{families.describe(base)}", "detail": f"{type(e).__name__}: {e}", "replay": rp, "hash": case_hash(rp)}], "hash": case_hash([c, sem]), "nontrivial": True}
    problems = _structure_problems(base, sc0)
    if problems:
        rp = {"kind": "structure", "circuit": c}
        return {"status": "violation", "violations": [{"signature": f"structure|{families.describe(base)}", "detail": "; ".join(problems[:3]), "replay": rp, "hash": case_hash(rp)}], "hash": case_hash([c, sem]), "nontrivial": True}
    circuit_check.FIXED_INIT[0] = base["kind"] == "logic"
    try:
        return circuit_check.eval_case(c, sem, seed, flags=flags, batches=(2,) if tier == "quick" else (2, 1), build=build, oracle="template", monotone=None if base["kind"] != "logic" else False, normalized=False, add_fold_batch=tier != "quick")
    finally:
        circuit_check.FIXED_INIT[0] = False


def replay(rp):
    c = rp["circuit"]
    base = c["base"] if c["kind"] == "pipe" else c
    if rp.get("kind") == "structure":
        try:
            sc0 = build(base)
        except Exception as e:  # noqa
            return False, f"{type(e).__name__}: {e}"
        probs = _structure_problems(base, sc0)
        return (not probs), ("; ".join(probs[:3]) or "structure as documented")
    circuit_check.FIXED_INIT[0] = base["kind"] == "logic"
    try:
        ok, msg, _ = circuit_check.concrete_eval(c, rp["semiring"], rp["fold"], rp["optimize"], rp["B"], rp.get("overrides", {}), rp.get("seed", 0), rp.get("monotone", False), build, rp.get("normalized", False), "template")
    finally:
        circuit_check.FIXED_INIT[0] = False
    return ok, msg

"""Shared runner for the operator properties C03-C07: the compiled result of an operator pipeline is
compared (by the solver, for all parameter values and inputs) with the operator's *definition* applied
to the reference semantics of the operand."""
from __future__ import annotations

from cirkit.symbolic.circuit import StructuralPropertyError
from cirkit.symbolic.registry import OperatorSignatureNotFound

from cvf import circuit_check, families
from cvf import terms as T
from cvf.harness import FLAGS, case_hash

REFUSALS = (StructuralPropertyError, NotImplementedError, OperatorSignatureNotFound)


def run_pipe_case(desc, seed, tier, flags=None, batches=None):
    circuit = desc["circuit"]
    sem = desc["semiring"]
    # does the operator refuse?  (allowed by the properties; tallied)
    T.reset_interning()
    try:
        families.build(circuit)
    except REFUSALS as e:
        return {
            "status": "ok",
            "refused": 1,
            "obligations": 0,
            "discharged": 0,
            "hash": case_hash([circuit, sem]),
            "nontrivial": False,
            "sample": {"circuit": circuit, "refused": f"{type(e).__name__}: {e}"},
        }
    circuit_check.SYMBOLIC_OBS[0] = bool(desc.get("symbolic_obs", False))
    if flags is None:
        flags = FLAGS if tier != "quick" else [(False, False), (True, True)]
    if batches is None:
        batches = (2,) if tier == "quick" else (2, 1)
    return circuit_check.eval_case(
        circuit,
        sem,
        seed,
        flags=flags,
        batches=batches,
        normalized=desc.get("normalized", False),
        oracle="pipe",
        monotone=desc.get("monotone"),
    )


def replay(rp):
    circuit_check.SYMBOLIC_OBS[0] = bool(rp.get("symbolic_obs", False))
    ok, msg, _ = circuit_check.concrete_eval(
        rp["circuit"],
        rp["semiring"],
        rp["fold"],
        rp["optimize"],
        rp["B"],
        rp.get("overrides", {}),
        rp.get("seed", 0),
        rp.get("monotone", False),
        None,
        rp.get("normalized", False),
        rp.get("oracle", "pipe"),
    )
    return ok, msg


COMMON_ENCODED = [
    "cirkit.symbolic.functional.integrate/multiply/differentiate/evidence/conjugate/concatenate",
    "cirkit.symbolic.operators.* (layer operator rules)",
    "cirkit.symbolic.circuit.Circuit.from_operation/__init__",
    "cirkit.symbolic.layers.Layer.copyref, cirkit.symbolic.parameters.Parameter.ref",
    "cirkit.backend.torch.compiler.TorchCompiler.compile_pipeline + everything listed for C01/C02",
]
COMMON_ASSUMPTIONS = [
    "floats are mathematical reals",
    "lse-sum: monotone parameters; probabilities in (0,1) (and summing to one where stated); stddev > 0",
    "trusted axiom: a normalised Gaussian integrates to 1 (continuous integrals are taken layerwise by linearity)",
    "E[theta]=exp(theta), MAX#k free symbols: unsat sound, sat replayed on the real code",
]

"""Shared runner for the operator properties C03-C07: the compiled result of an operator pipeline is
compared (by the solver, for all parameter values and inputs) with the operator's *definition* applied
to the reference semantics of the operand."""
from __future__ import annotations

from cirkit.symbolic.circuit import StructuralPropertyError
from cirkit.symbolic.registry import OperatorSignatureNotFound

from cvf import circuit_check, families
from cvf import terms as T
from cvf.harness import FLAGS, case_hash

REFUSALS = (StructuralPropertyError, NotImplementedError, OperatorSignatureNotFound)


def run_pipe_case(desc, seed, tier, flags=None, batches=None):
    circuit = desc["circuit"]
    sem = desc["semiring"]
    # does the operator refuse?  (allowed by the properties; tallied)
    T.reset_interning()
    try:
        families.build(circuit)
    except REFUSALS as e:
        return {
            "status": "ok",
            "refused": 1,
            "obligations": 0,
            "discharged": 0,
            "hash": case_hash([circuit, sem]),
            "nontrivial": False,
            "sample": {"circuit": circuit, "refused": f"{type(e).__name__}: {e}"},
        }
    circuit_check.SYMBOLIC_OBS[0] = bool(desc.get("symbolic_obs", False))
    if flags is None:
        flags = FLAGS if tier != "quick" else [(False, False), (True, True)]
    if batches is None:
        batches = (2,) if tier == "quick" else (2, 1)
    return circuit_check.eval_case(
        circuit,
        sem,
        seed,
        flags=flags,
        batches=batches,
        normalized=desc.get("normalized", False),
        oracle="pipe",
        monotone=desc.get("monotone"),
    )


def replay(rp):
    circuit_check.SYMBOLIC_OBS[0] = bool(rp.get("symbolic_obs", False))
    ok, msg, _ = circuit_check.concrete_eval(
        rp["circuit"],
        rp["semiring"],
        rp["fold"],
        rp["optimize"],
        rp["B"],
        rp.get("overrides", {}),
        rp.get("seed", 0),
        rp.get("monotone", False),
        None,
        rp.get("normalized", False),
        rp.get("oracle", "pipe"),
    )
    return ok, msg


COMMON_ENCODED = [
    "cirkit.symbolic.functional.integrate/multiply/differentiate/evidence/conjugate/concatenate",
    "cirkit.symbolic.operators.* (layer operator rules)",
    "cirkit.symbolic.circuit.Circuit.from_operation/__init__",
    "cirkit.symbolic.layers.Layer.copyref, cirkit.symbolic.parameters.Parameter.ref",
    "cirkit.backend.torch.compiler.TorchCompiler.compile_pipeline + everything listed for C01/C02",
]
COMMON_ASSUMPTIONS = [
    "floats are mathematical reals",
    "lse-sum: monotone parameters; probabilities in (0,1) (and summing to one where stated); stddev > 0",
    "trusted axiom: a normalised Gaussian integrates to 1 (continuous integrals are taken layerwise by linearity)",
    "E[theta]=exp(theta), MAX#k free symbols: unsat sound, sat replayed on the real code",
]


# ---------------------------------------------------------------------------------------------
# seeded random operator pipelines over random region-graph circuits (thorough tiers)
# ---------------------------------------------------------------------------------------------


def _nvars(d):
    if "shape" in d:
        n = 1
        for x in d["shape"]:
            n *= x
        return n
    return d["nvars"]


def random_pipes(seed, n, kind):
    """kind in integrate / evidence / conjugate / differentiate / multiply"""
    import random

    from cvf import families

    rnd = random.Random(seed * 7907 + {"integrate": 1, "evidence": 2, "conjugate": 3, "differentiate": 4, "multiply": 5}[kind])
    inputs = {
        "integrate": ["cat-softmax", "cat-logits", "cat2-probs", "embedding"],
        "evidence": ["cat-softmax", "cat-logits", "embedding"],
        "conjugate": ["cat-logits", "embedding", "embedding2", "cat-softmax"],
        "differentiate": ["poly1", "poly2"],
        "multiply": ["cat-logits", "embedding", "embedding2"],
    }[kind]
    out = []
    for d in families.random_members(seed + {"integrate": 11, "evidence": 12, "conjugate": 13, "differentiate": 14, "multiply": 15}[kind], n, inputs=inputs):
        if d.get("explicit"):
            d["input"] = rnd.choice(inputs)
        nv = _nvars(d)
        if nv > 4 or (d.get("K", 2) == 3 and nv > 3):
            continue  # keep the random pipelines within what the solver decides in minutes
        vars_ = list(range(nv))
        c = {}
        if kind == "integrate":
            z = None if rnd.random() < 0.3 else sorted(rnd.sample(vars_, rnd.randint(1, nv)))
            ops = [["integrate", z]]
            if rnd.random() < 0.25 and z is not None and len(z) < nv:
                rest = [v for v in vars_ if v not in z]
                ops.append(["integrate", sorted(rnd.sample(rest, rnd.randint(1, len(rest))))])
            if str(d["input"]).endswith("probs"):
                c["normalized"] = True
        elif kind == "evidence":
            ncat = 2 if "2" in d["input"] else 3
            obs = {str(v): rnd.randrange(ncat) for v in rnd.sample(vars_, rnd.randint(1, nv))}
            ops = [["evidence", obs]]
            if len(obs) == nv:
                c["no_complex"] = True  # a fully observed circuit is a constant: nothing for the complex log path to add
            if rnd.random() < 0.3:
                free = [v for v in vars_ if str(v) not in obs]
                if free:
                    ops.append(["integrate", sorted(rnd.sample(free, rnd.randint(1, len(free))))])
        elif kind == "conjugate":
            ops = [["conjugate"]] + ([["conjugate"]] if rnd.random() < 0.4 else [])
        elif kind == "differentiate":
            d["weights"] = rnd.choice(["raw", "exp"])
            d.pop("mixing", None) if d.get("mixing") == "softmax" else None
            ops = [["differentiate", rnd.choice([1, 1, 2])]]
        else:
            d["weights"] = rnd.choice(["raw", "exp"])
            if d.get("mixing") == "softmax":
                d["mixing"] = "raw"
            d["K"] = min(d.get("K", 2), 2)
            if d.get("Kin"):
                d["Kin"] = min(d["Kin"], 2)
            if nv > 4:
                continue
            ops = [[rnd.choice(["square", "multiply_other"])]]
        c["circuit"] = {"kind": "pipe", "base": d, "ops": ops}
        out.append(c)
    return out

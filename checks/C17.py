"""C17 -- parameter initialisation follows the symbolic initialiser regardless of folding."""
from __future__ import annotations

import random
import traceback

import numpy as np
import torch

from cirkit.backend.torch.compiler import TorchCompiler
from cirkit.symbolic import layers as SL
from cirkit.symbolic import parameters as SP
from cirkit.symbolic.circuit import Circuit
from cirkit.symbolic.dtypes import DataType
from cirkit.symbolic.initializers import ConstantTensorInitializer, DirichletInitializer, NormalInitializer, UniformInitializer
from cirkit.symbolic.parameters import Parameter, TensorParameter
from cirkit.utils.scope import Scope

from cvf import circuit_check
from cvf import terms as T
from cvf import vals as V
from cvf.harness import HarnessError, Session, SymEnv, case_hash
from cvf.shadow import Shadow, TranslatorMismatch, Unsupported
from cvf.vals import Val

PROPERTY = "C17"
LEVEL = "translation_validation"
CASE_TIMEOUT = {"quick": 300, "thorough": 900}
ENCODED = [
    "cirkit.backend.torch.rules.initializers.compile_constant_tensor_initializer/compile_uniform_initializer/compile_normal_initializer/compile_dirichlet_initializer",
    "cirkit.backend.torch.initializers.foldwise_initializer_/copy_from_ndarray_/dirichlet_",
    "cirkit.backend.torch.rules.parameters.compile_tensor_parameter/compile_constant_parameter",
    "cirkit.backend.torch.parameters.nodes.TorchTensorParameter.reset_parameters/fold_settings",
    "cirkit.backend.torch.compiler._fold_parameter_nodes_group, TorchCompilerState.register_compiled_parameter",
    "cirkit.backend.torch.circuits.TorchCircuit.reset_parameters",
]
RULE = (
    "one case = (set of symbolic tensor parameters with their initialisers / shapes / learnable flags / dtypes placed in "
    "one circuit, flags).  The circuit is compiled and then reset twice under the shadow engine with the random sources "
    "(aten.normal_, aten.uniform_, aten._sample_dirichlet) replaced by stubs returning FRESH solver symbols tagged with "
    "the arguments of the call and constrained only by the documented contract (uniform: a <= u <= b; Dirichlet: "
    "positive, summing to one along the last axis of the sample).  Before each reset every tensor is overwritten with "
    "poison.  After compilation and after each reset, for every symbolic parameter p and its slice (registry): "
    "constants / arrays: every entry equals the value of p's initialiser; uniform / normal: every entry is a fresh "
    "symbol drawn by a call with p's own (a,b) / (mean,stddev), no symbol occurs twice, and z3 shows a <= entry <= b; "
    "Dirichlet: z3 decides, for every index of the other axes, sum over the DECLARED axis == 1 and entries > 0 (from "
    "the stub contract), and the concentration of the j-th entry along that axis is alpha[j]; no poison left; dtype "
    "and requires_grad of the tensor follow p.  distinct = (descriptor, flags); non-trivial = >= 2 parameters."
)
BOUNDS = "fixed list + (thorough) 400 seeded random parameter sets; <= 4 foldable input parameters of shape (K<=3, S<=4) + sum weights (2-D, and 3-D reduced to 2-D), axis in [-ndim, ndim), alpha scalar or list, 4 flag pairs, compile + 2 resets"
OUTSIDE = "random initialisers of complex tensors (torch fills them through a real view; not modelled by the stubs); distributional claims (moments of normal samples, the Dirichlet density): the stubs only carry the call arguments; torch's samplers are trusted; integer dtypes"
ASSUMPTIONS = [
    "aten.normal_/uniform_/_sample_dirichlet are nondeterministic stubs: fresh symbols constrained by their contract",
    "floats are mathematical reals",
]
EXPLANATION = "initialisation executed symbolically with stubbed random sources; axis / slice / bound obligations decided by z3"

POISON = -7.0


# ---------------------------------------------------------------------------------------------
# descriptors
# ---------------------------------------------------------------------------------------------


def _mk_init(spec, shape, i):
    t = spec["t"]
    if t == "const":
        return ConstantTensorInitializer(spec["v"] + i / 8.0)
    if t == "cconst":
        return ConstantTensorInitializer(complex(spec["v"] + i / 8.0, 0.5))
    if t == "array":
        n = int(np.prod(shape))
        return ConstantTensorInitializer((np.arange(n, dtype=np.float64).reshape(shape) / 4.0 + 16.0 * (i + 1)).astype(spec.get("np", "float64")))
    if t == "uniform":
        return UniformInitializer(spec["a"], spec["b"])
    if t == "normal":
        return NormalInitializer(spec["m"], spec["s"])
    if t == "dirichlet":
        return DirichletInitializer(spec["alpha"], axis=spec["axis"])
    raise ValueError(t)


def _tp(spec, shape, i):
    dt = {"real": DataType.REAL, "complex": DataType.COMPLEX}[spec.get("dtype", "real")]
    return TensorParameter(*shape, initializer=_mk_init(spec, shape, i), learnable=spec.get("learnable", True), dtype=dt)


def build(d):
    """n embedding inputs (foldable together) -> hadamard -> sum; returns (circuit, [(param, spec, index)])"""
    K, S = d.get("K", 2), d.get("S", 3)
    plist = []
    ins = []
    for i, spec in enumerate(d["inputs"]):
        p = _tp(spec, (K, S), i)
        plist.append((p, spec, i))
        ins.append(SL.EmbeddingLayer(Scope([i]), K, num_states=S, weight=Parameter.from_input(p)))
    layers = list(ins)
    in_layers = {}
    top = ins[0]
    if len(ins) > 1:
        prod = SL.HadamardLayer(K, arity=len(ins))
        layers.append(prod)
        in_layers[prod] = ins
        top = prod
    sums = []
    for j, spec in enumerate(d.get("sums", [{"t": "normal", "m": 0.0, "s": 1.0}])):
        Ko = d.get("Ko", 2)
        if spec.get("rank3"):
            R = spec["rank3"]
            p = _tp(spec, (Ko, K, R), 10 + j)
            w = Parameter.from_unary(SP.ReduceSumParameter((Ko, K, R), axis=2), p)
        else:
            p = _tp(spec, (Ko, K), 10 + j)
            w = Parameter.from_input(p)
        plist.append((p, spec, 10 + j))
        s = SL.SumLayer(K, Ko, weight=w)
        layers.append(s)
        in_layers[s] = [top]
        sums.append(s)
    return Circuit(layers, in_layers, sums), plist


U = {"t": "uniform", "a": 2.0, "b": 3.0}
U2 = {"t": "uniform", "a": -1.0, "b": -0.5}
N = {"t": "normal", "m": 5.0, "s": 0.125}
N2 = {"t": "normal", "m": 0.0, "s": 1.0}
C = {"t": "const", "v": 0.5}
CF = {"t": "const", "v": 0.25, "learnable": False}
A = {"t": "array"}
A32 = {"t": "array", "np": "float32"}
AF = {"t": "array", "learnable": False}


def D(axis, alpha=1.0, **kw):
    d = {"t": "dirichlet", "alpha": alpha, "axis": axis}
    d.update(kw)
    return d


def _all(tier):
    out = []

    def add(inputs, sums=None, **kw):
        d = {"kind": "init", "inputs": inputs}
        if sums is not None:
            d["sums"] = sums
        d.update(kw)
        out.append(d)

    add([U, N, C, A])
    add([C, U, CF, U2])
    add([A, AF, A32, N])
    add([N, N2, U])
    add([A, A], [A])
    add([C, C], [C, C])
    for ax in (-1, -2, 0, 1):
        add([D(ax), D(ax)])
        add([D(ax), U, D(ax), C])
        add([D(ax, [1.0, 2.0, 3.0] if ax in (-1, 1) else [1.0, 2.0]), N])
        add([D(ax)])
        add([U], [D(ax)])
        add([U, N], [D(ax), D(ax)])
        add([D(ax), D(-1 if ax != -1 else 0)])
    add([D(-1, learnable=False), D(-1)])
    add([D(0, K=3), D(0)], K=3, S=3)
    add([D(1), D(-2)], K=3, S=3)
    for ax in (-1, -2, -3, 0, 1, 2):
        add([U], [D(ax, rank3=2)])
        add([U], [D(ax, rank3=3)], K=3, Ko=2)
        add([U], [D(ax, rank3=2)], K=3, Ko=4)
    add([{"t": "cconst", "v": 1.0, "dtype": "complex"}, {"t": "cconst", "v": 2.0, "dtype": "complex"}])
    add([U, dict(U, learnable=False), N, dict(N, learnable=False)])
    return out


def _random_members(seed, n):
    """random parameter sets: 1-4 foldable input parameters and 1-2 sum weights, random initialisers, axes,
    learnable flags, shapes (thorough tier)"""
    rnd = random.Random(7919 * seed + 17)
    out = []

    def spec(shape):
        t = rnd.choice(["uniform", "normal", "const", "array", "dirichlet", "dirichlet"])
        if t == "uniform":
            a = rnd.choice([-2.0, 0.0, 0.5, 2.0])
            d = {"t": "uniform", "a": a, "b": a + rnd.choice([0.5, 1.0, 3.0])}
        elif t == "normal":
            d = {"t": "normal", "m": rnd.choice([-1.0, 0.0, 5.0]), "s": rnd.choice([0.125, 1.0, 2.0])}
        elif t == "const":
            d = {"t": "const", "v": rnd.choice([0.5, -1.25, 3.0])}
        elif t == "array":
            d = {"t": "array", "np": rnd.choice(["float64", "float32"])}
        else:
            ax = rnd.randrange(-len(shape), len(shape))
            n_ = shape[ax]
            alpha = rnd.choice([1.0, 0.5, [float(1 + j) for j in range(n_)]])
            d = {"t": "dirichlet", "alpha": alpha, "axis": ax}
        if rnd.random() < 0.25:
            d["learnable"] = False
        return d

    for _ in range(n):
        K, S, Ko = rnd.choice([1, 2, 3]), rnd.choice([2, 3, 4]), rnd.choice([1, 2, 3])
        ins = [spec((K, S)) for _ in range(rnd.randint(1, 4))]
        sums = []
        for _ in range(rnd.randint(1, 2)):
            if rnd.random() < 0.3:
                R = rnd.choice([2, 3])
                d = spec((Ko, K, R))
                d["rank3"] = R
            else:
                d = spec((Ko, K))
            sums.append(d)
        out.append({"kind": "init", "inputs": ins, "sums": sums, "K": K, "S": S, "Ko": Ko})
    return out


def cases(tier, seed):
    allc = _all(tier)
    if tier != "quick":
        allc = allc + _random_members(1, 400)
    out = []
    flags = [(False, False), (True, False), (False, True), (True, True)]
    for i, c in enumerate(allc):
        fl = flags if tier != "quick" else [(False, False), (True, True)]
        for f, o in fl:
            out.append({"circuit": c, "fold": f, "optimize": o})
    return out


# ---------------------------------------------------------------------------------------------


def _expected_const(spec, p):
    v = p.initializer.value
    if isinstance(v, np.ndarray):
        return v
    return np.full(p.shape, v)


def _is_const(v):
    return isinstance(v, Val) and v.kind == "lin" and not v.mu and v.re.op == "const" and (v.im is None or v.im.op == "const")


def _sym_name(v):
    """name of the fresh random symbol a Val consists of (or None)"""
    if not isinstance(v, Val) or v.kind != "lin":
        return None
    t = v.re
    if v.mu:
        # positive atoms (Dirichlet) are kept in the monomial
        return None
    if t.op in ("var", "atom") and isinstance(t.data, str) and t.data.startswith("rnd_"):
        return t.data
    return None


def _entry_symbol(v):
    """(name, term) of an entry that is exactly one fresh random symbol"""
    if not isinstance(v, Val) or v.kind != "lin" or v.im is not None:
        return None, None
    t = v.full_re() if hasattr(v, "full_re") else v.re
    if t.op in ("var", "atom") and isinstance(t.data, str) and t.data.startswith("rnd_"):
        return t.data, t
    return None, None


def _check_round(when, comp, plist, m, sess, problems, seen_syms):
    ctx = m.ctx
    rinfo = ctx.__dict__.get("rnd_info", {})
    for p, spec, i in plist:
        who = f"{when}: parameter {i} {spec['t']}{list(p.shape)}"
        if not comp.state.has_compiled_parameter(p):
            problems.append(("unregistered", f"{who} has no compiled tensor"))
            continue
        tp, idx = comp.state.retrieve_compiled_parameter(p)
        t = tp._ptensor
        if t is None or not (0 <= idx < t.shape[0]) or tuple(t.shape[1:]) != tuple(p.shape):
            problems.append(("slice", f"{who}: compiled tensor {None if t is None else tuple(t.shape)} / fold {idx}"))
            continue
        if bool(t.requires_grad) != bool(p.learnable):
            problems.append(("requires-grad", f"{who}: learnable={p.learnable} but requires_grad={t.requires_grad}"))
        want_c = p.dtype == DataType.COMPLEX
        if t.is_complex() != want_c or not (t.is_floating_point() or t.is_complex()):
            problems.append(("dtype", f"{who}: symbolic dtype {p.dtype.name} but tensor dtype {t.dtype}"))
        sl = t.data[idx]
        arr = m.arr(sl)
        conc = sl.detach().numpy()
        kind = spec["t"]
        if kind in ("const", "cconst", "array"):
            want = _expected_const(spec, p)
            for ix in np.ndindex(*p.shape):
                v = arr[ix]
                sess.obligations += 1
                if not _is_const(v) or not V.close(v.concrete(ctx.env), complex(want[ix]) if want_c else float(want[ix]), rtol=0, atol=0):
                    problems.append(("constant", f"{who}: entry {ix} is {conc[ix]!r}, the initialiser says {want[ix]!r}"))
                    break
                sess.discharged += 1
                sess.syntactic += 1
            continue
        if kind in ("uniform", "normal"):
            want_info = ("uniform", float(spec["a"]), float(spec["b"])) if kind == "uniform" else ("normal", float(spec["m"]), float(spec["s"]))
            for ix in np.ndindex(*p.shape):
                v = arr[ix]
                parts = [v] if not want_c else [v.real(), v.imag()]
                bad = False
                for part in parts:
                    name, term = _entry_symbol(part)
                    sess.obligations += 1
                    if name is None:
                        problems.append((kind, f"{who}: entry {ix} = {conc[ix]!r} is not a fresh {kind} draw (poison / constant / foreign value left in the slice)"))
                        bad = True
                        break
                    info = rinfo.get(name)
                    if info is None or tuple(info[1:]) != want_info:
                        problems.append((kind, f"{who}: entry {ix} was drawn by {info[1:] if info else '?'}, the initialiser says {want_info}"))
                        bad = True
                        break
                    if name in seen_syms:
                        problems.append((kind, f"{who}: entry {ix} re-uses a draw that is already stored elsewhere ({seen_syms[name]})"))
                        bad = True
                        break
                    seen_syms[name] = f"{when} parameter {i}{ix}"
                    sess.discharged += 1
                    if kind == "uniform" and not want_c:
                        r = sess.prove(T.and_(T.ge(term, T.const(spec["a"])), T.le(term, T.const(spec["b"]))), f"{who}[{ix}] in [a,b]", under_pc=False)
                        if r == "cex":
                            sess.cex.pop()
                            problems.append((kind, f"{who}: entry {ix} not within [{spec['a']},{spec['b']}]"))
                            bad = True
                            break
                if bad:
                    break
            continue
        if kind == "dirichlet":
            nd = len(p.shape)
            ax = spec["axis"] if spec["axis"] >= 0 else spec["axis"] + nd
            alpha = spec["alpha"]
            others = [range(n) if k != ax else [None] for k, n in enumerate(p.shape)]
            bad = False
            import itertools

            for other in itertools.product(*others):
                terms = []
                calls = set()
                for j in range(p.shape[ax]):
                    ix = tuple(j if o is None else o for o in other)
                    v = arr[ix]
                    name, term = _entry_symbol(v)
                    sess.obligations += 1
                    if name is None or not name.startswith("rnd_dirichlet"):
                        problems.append((kind, f"{who}: entry {ix} = {conc[ix]!r} is not a fresh Dirichlet draw"))
                        bad = True
                        break
                    info = rinfo.get(name)
                    a_j = float(alpha[j]) if isinstance(alpha, list) else float(alpha)
                    if info is None or info[1] != "dirichlet" or abs(info[2] - a_j) > 0:
                        problems.append((kind, f"{who}: entry {ix} has concentration {info[2] if info else '?'}, the initialiser says alpha[{j}]={a_j}"))
                        bad = True
                        break
                    if name in seen_syms:
                        problems.append((kind, f"{who}: entry {ix} re-uses a draw stored elsewhere ({seen_syms[name]})"))
                        bad = True
                        break
                    seen_syms[name] = f"{when} parameter {i}{ix}"
                    calls.add((info[0], info[3]))
                    terms.append(term)
                    sess.discharged += 1
                if bad:
                    break
                r = sess.prove(T.eq(T.add(*terms), T.ONE), f"{who}: sum over declared axis {spec['axis']} at {other} == 1", under_pc=False)
                if r == "cex":
                    sess.cex.pop()
                    sums = conc.sum(axis=ax)
                    problems.append((kind, f"{who}: entries do not sum to one along the declared axis {spec['axis']} (sums {np.round(sums, 4).tolist()}): the sample's simplex lies along another axis"))
                    bad = True
                    break
            continue
        raise HarnessError(f"unknown initialiser kind {kind}")


def _poison(cc, m=None):
    with torch.no_grad():
        for q in list(cc.parameters()) + [b for b in cc.buffers() if b.is_floating_point() or b.is_complex()]:
            if q.is_floating_point() or q.is_complex():
                q.data.fill_(POISON)


def scenario(d, fold, opt, symbolic, seed=0):
    """returns (problems, stats).  symbolic=False: plain concrete run with numeric oracles (replay)."""
    T.reset_interning()
    sc, plist = build(d)
    senv = SymEnv(seed)
    sess = Session(senv, 30000)
    problems = []
    if symbolic:
        m = Shadow(senv.ctx)
        seen = {}
        with m:
            comp = TorchCompiler(semiring="sum-product", fold=fold, optimize=opt)
            cc = comp.compile(sc)
            _check_round("after compile", comp, plist, m, sess, problems, seen)
            for r in (1, 2):
                if problems:
                    break
                _poison(cc)
                cc.reset_parameters()
                _check_round(f"after reset #{r}", comp, plist, m, sess, problems, seen)
        return problems, sess, m, senv
    torch.manual_seed(seed)
    comp = TorchCompiler(semiring="sum-product", fold=fold, optimize=opt)
    cc = comp.compile(sc)
    rounds = ["after compile", "after reset #1", "after reset #2"]
    for r, when in enumerate(rounds):
        if r:
            _poison(cc)
            cc.reset_parameters()
        for p, spec, i in plist:
            who = f"{when}: parameter {i} {spec['t']}{list(p.shape)}"
            tp, idx = comp.state.retrieve_compiled_parameter(p)
            t = tp._ptensor
            if bool(t.requires_grad) != bool(p.learnable):
                problems.append(("requires-grad", f"{who}: learnable={p.learnable} but requires_grad={t.requires_grad}"))
            if t.is_complex() != (p.dtype == DataType.COMPLEX):
                problems.append(("dtype", f"{who}: symbolic dtype {p.dtype.name} but tensor dtype {t.dtype}"))
            x = t.data[idx].detach().numpy()
            k = spec["t"]
            if k in ("const", "cconst", "array"):
                if not np.array_equal(x, _expected_const(spec, p).astype(x.dtype)):
                    problems.append(("constant", f"{who}: slice {x.tolist()} != initialiser value"))
            elif k == "uniform":
                xs = np.concatenate([x.real.ravel(), x.imag.ravel()]) if np.iscomplexobj(x) else x.ravel()
                if not ((xs >= spec["a"]).all() and (xs <= spec["b"]).all()):
                    problems.append((k, f"{who}: values outside [{spec['a']},{spec['b']}]: {x.ravel()[:4].tolist()}"))
            elif k == "normal":
                xs = x.real.ravel()
                if (xs == POISON).any() or (abs(xs - spec["m"]) > 12 * spec["s"]).any():
                    problems.append((k, f"{who}: values {xs[:4].tolist()} are not draws from N({spec['m']},{spec['s']})"))
            elif k == "dirichlet":
                ax = spec["axis"] if spec["axis"] >= 0 else spec["axis"] + len(p.shape)
                sums = x.sum(axis=ax)
                if not np.allclose(sums, 1.0, atol=1e-9) or (x <= 0).any():
                    problems.append((k, f"{who}: sums along the declared axis {spec['axis']} are {np.round(sums, 4).tolist()}"))
    return problems, sess, None, senv


def concrete_run(d, fold, opt, seed=0):
    try:
        problems, _, _, _ = scenario(d, fold, opt, False, seed)
    except Exception as e:  # noqa
        tb = traceback.format_exc()
        return False, f"real code raised {type(e).__name__}: {e} at {circuit_check.repo_frame(tb)}"
    if problems:
        return False, "; ".join(f"{k}: {msg}" for k, msg in problems[:3])
    return True, "every parameter slice follows its initialiser after compile and after both resets"


def run_case(desc, seed, tier):
    d, fold, opt = desc["circuit"], desc["fold"], desc["optimize"]
    res = {"status": "ok", "obligations": 0, "discharged": 0, "syntactic": 0, "queries": 0, "solver_s": 0.0, "paths": 1, "violations": [], "inconclusive": [], "stubs": [], "ops_validated": 0, "transitions": 3}
    desc_s = ",".join(f"{k}={v}" for k, v in sorted(d.items()) if k != "kind")

    def violation(kind, detail):
        rp = {"kind": "init", "circuit": d, "fold": fold, "optimize": opt, "seed": seed}
        res["violations"].append({"signature": f"{kind}|{desc_s}|fold={fold},opt={opt}", "detail": detail, "replay": rp, "hash": case_hash(rp)})
        res["status"] = "violation"

    def fin(sess=None, senv=None, m=None):
        if sess is not None:
            res["obligations"] += sess.obligations
            res["discharged"] += sess.discharged
            res["syntactic"] += sess.syntactic
            res["queries"] += sess.q.n_queries
            res["solver_s"] += sess.q.time
            res["inconclusive"].extend(sess.inconclusive)
        if senv is not None:
            res["stubs"] = sorted(senv.ctx.stubs_used)
        if m is not None:
            res["ops_validated"] = m.n_validated
        res["hash"] = case_hash([d, fold, opt])
        res["nontrivial"] = len(d["inputs"]) + len(d.get("sums", [1])) >= 2
        res["sample"] = {"circuit": d, "fold": fold, "optimize": opt, "obligations": res["obligations"]}
        return res

    try:
        problems, sess, m, senv = scenario(d, fold, opt, True, seed)
    except (Unsupported, TranslatorMismatch) as e:
        okc, msg = concrete_run(d, fold, opt, seed)
        if okc:
            raise HarnessError(f"shadow engine failed and the concrete run is fine: {type(e).__name__}: {str(e)[:500]}")
        violation("init(concrete-fallback)", msg)
        return fin()
    except HarnessError:
        raise
    except Exception as e:  # noqa
        tb = traceback.format_exc()
        okc, msg = concrete_run(d, fold, opt, seed)
        if okc:
            raise HarnessError(f"exception only under the shadow engine: {type(e).__name__}: {e}\n{tb[-1500:]}")
        violation(f"raises:{type(e).__name__}@{circuit_check.repo_frame(tb)}", msg)
        return fin()
    if problems:
        okc, msg = concrete_run(d, fold, opt, seed)
        if okc:
            res["inconclusive"].append(f"symbolic finding not reproduced concretely: {problems[0]}")
            return fin(sess, senv, m)
        violation(problems[0][0], msg)
    return fin(sess, senv, m)


def replay(rp):
    return concrete_run(rp["circuit"], rp["fold"], rp["optimize"], rp.get("seed", 0))

"""C07 -- conjugate computes the complex conjugate (identity on real circuits)."""
from __future__ import annotations

import random

from checks import _ops

PROPERTY = "C07"
LEVEL = "translation_validation"
CASE_TIMEOUT = {"quick": 420, "thorough": 600}
ENCODED = [
    "cirkit.symbolic.functional.conjugate",
    "cirkit.symbolic.operators.conjugate_embedding_layer/conjugate_categorical_layer/conjugate_gaussian_layer/"
    "conjugate_polynomial_layer/conjugate_sum_layer",
    "cirkit.backend.torch.parameters.nodes.TorchConjugateParameter",
] + _ops.COMMON_ENCODED
RULE = (
    "one case = (circuit or operator result, conjugation chain, semiring): conjugate(...) is applied symbolically, "
    "compiled and executed under the shadow engine; the solver decides compiled(x) == conj(denotation of the operand)(x) "
    "for all parameter values (real and complex) and inputs; for real parameters this is identity with c; "
    "conjugate(conjugate(c)) == c and integrate(conjugate(c)) == conj(integrate(c)) are cases of the same query. "
    "distinct = (descriptor, semiring)."
)
BOUNDS = "circuits <= 4 variables, K <= 2; base circuits, products (incl. products of Gaussians with log-partition), integrals, evidence"
OUTSIDE = "float rounding; complex-valued Gaussian parameters"
ASSUMPTIONS = _ops.COMMON_ASSUMPTIONS
EXPLANATION = "conjugation equation per output entry decided by z3"


def _all(tier):
    H = lambda **k: dict({"kind": "hand"}, **k)
    bases = [
        H(name="nested", K=2, input="cat-logits", ids=[0, 1, 2]),
        H(name="nested", K=2, input="cat-softmax", ids=[0, 1, 2]),
        H(name="nested", K=2, input="cat-probs", ids=[0, 1, 2]),
        H(name="nested", K=2, input="embedding", ids=[1, 8, 3]),
        H(name="nested", K=2, input="gaussian", ids=[0, 1, 2]),
        H(name="nested", K=2, input="gaussian-lp", ids=[0, 1, 2]),
        H(name="nested", K=2, input="poly2", ids=[0, 1, 2]),
        H(name="shared", K=2, input="embedding"),
        H(name="had3", K=2, input="cat-logits", Ko=2),
        H(name="mixed-inputs", K=2),
        {"kind": "rg", "algo": "qg", "shape": [1, 2, 2], "sp": "cp", "input": "embedding", "weights": "raw", "K": 2},
        {"kind": "rg", "algo": "rbt", "nvars": 4, "sp": "tucker", "input": "cat-softmax", "weights": "softmax", "K": 2},
    ]
    out = []
    for b in bases:
        out.append({"circuit": {"kind": "pipe", "base": b, "ops": [["conjugate"]]}})
        out.append({"circuit": {"kind": "pipe", "base": b, "ops": [["conjugate"], ["conjugate"]]}})
    for b in bases[:9]:
        out.append({"circuit": {"kind": "pipe", "base": b, "ops": [["square"], ["conjugate"]]}})
        out.append({"circuit": {"kind": "pipe", "base": b, "ops": [["multiply_other"], ["conjugate"], ["conjugate"]]}})
    for b in bases[:6]:
        out.append({"circuit": {"kind": "pipe", "base": b, "ops": [["conjugate"], ["integrate", None]]}})
        out.append({"circuit": {"kind": "pipe", "base": b, "ops": [["square"], ["conjugate"], ["integrate", [b["ids"][0], b["ids"][2]]]]}})
        out.append({"circuit": {"kind": "pipe", "base": b, "ops": [["multiply_conj"]]}})
    out.append({"circuit": {"kind": "pipe", "base": bases[0], "ops": [["evidence", {"1": 2}], ["conjugate"]]}})
    # conjugate of PRODUCTS whose factor weights are reparameterised (softmax / exp) or already conjugated
    for w in ("softmax", "exp"):
        bw = H(name="nested", K=2, input="embedding", ids=[0, 1, 2], weights=w)
        out.append({"circuit": {"kind": "pipe", "base": bw, "ops": [["square"], ["conjugate"]]}, "core": True})
        out.append({"circuit": {"kind": "pipe", "base": bw, "ops": [["multiply_other"], ["conjugate"], ["integrate", None]]}, "core": True})
    out.append({"circuit": {"kind": "pipe", "base": bases[3], "ops": [["multiply_conj"], ["conjugate"]]}, "core": True})
    out.append({"circuit": {"kind": "pipe", "base": bases[0], "ops": [["multiply_conj"], ["conjugate"], ["conjugate"]]}, "core": True})
    for c in out:
        # integrating a Categorical layer given by 'probs' uses the documented meaning of probs (they sum to one)
        if c["circuit"]["base"].get("input") == "cat-probs" and any(o[0] == "integrate" for o in c["circuit"]["ops"]):
            c["normalized"] = True
    return out


def cases(tier, seed):
    rnd = random.Random(seed)
    allc = _all(tier)
    out = []

    def sems_for(c):
        return ["sum-product", "complex-lse-sum"] if "poly" in str(c) else ["sum-product", "lse-sum", "complex-lse-sum"]

    if tier == "quick":
        core = [c for c in allc if c.get("core")]
        allc = [c for c in allc if not c.get("core")]
        rnd.shuffle(allc)
        for i, c in enumerate(core + allc[:26]):
            ss = sems_for(c)
            d = dict(c)
            d["semiring"] = ss[(i + seed) % len(ss)]
            out.append(d)
    else:
        for c in allc:
            for s in sems_for(c):
                d = dict(c)
                d["semiring"] = s
                out.append(d)
        for i_, c in enumerate(_ops.random_pipes(1, 120, "conjugate")):
            d = dict(c)
            ss_ = ["sum-product", "lse-sum", "complex-lse-sum"]
            d["semiring"] = ss_[i_ % len(ss_)]
            if d.pop("no_complex", False) and d["semiring"] == "complex-lse-sum":
                d["semiring"] = "sum-product"
            out.append(d)
    return out


def run_case(desc, seed, tier):
    return _ops.run_pipe_case(desc, seed, tier)


replay = _ops.replay

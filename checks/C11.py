"""C11 -- marginal queries on compiled circuits equal true marginals per sample."""
from __future__ import annotations

import itertools
import random
import traceback

import numpy as np
import torch

from cirkit.backend.torch.compiler import TorchCompiler
from cirkit.backend.torch.queries import IntegrateQuery
from cirkit.symbolic import layers as SL
from cirkit.utils.scope import Scope

from cvf import circuit_check, families, refsem
from cvf import terms as T
from cvf import vals as V
from cvf.harness import HarnessError, Session, SymEnv, bind_inputs, bind_shadows, case_hash, denote, eq_goal, input_spec, make_inputs, write_concrete
from cvf.shadow import Shadow, TranslatorMismatch, lift_concrete
from cvf.vals import Unsupported, Val
from checks import _ops

PROPERTY = "C11"
LEVEL = "translation_validation"
CASE_TIMEOUT = {"quick": 600, "thorough": 1800}
ENCODED = [
    "cirkit.backend.torch.queries.IntegrateQuery.__call__/_layer_fn/scopes_to_mask",
    "cirkit.backend.torch.layers.input.TorchExpFamilyLayer.integrate, *.log_partition_function",
    "cirkit.backend.torch.graph.modules.TorchDiAcyclicGraph.evaluate (module functional)",
    "cirkit.backend.torch.circuits.LayerAddressBook.lookup",
] + _ops.COMMON_ENCODED[-1:]
RULE = (
    "one case = (circuit, semiring, flags, batch size, mask format): IntegrateQuery is executed under the shadow "
    "engine with symbolic parameters, symbolic inputs AND a symbolic boolean mask entry per (sample, variable); the "
    "python branch on torch.any(mask) is a path condition, the other paths are found by the solver and re-executed; "
    "per output entry z3 decides equality with the per-sample marginal of the reference semantics (input layers of "
    "marginalised variables replaced by their exact sum over the domain / Gaussian integral, selected by the mask). "
    "Scope / list-of-scope formats and the rejection of out-of-scope variables are checked on all concrete scopes. "
    "distinct = (descriptor, semiring, flags, B)."
)
BOUNDS = "circuits <= 4 variables, K <= 2, B in {1,2,3,F}; inputs categorical(probs normalised|logits|softmax), embedding is refused by the code, Gaussian(+-log-partition); <= 6 paths per case"
OUTSIDE = "binomial inputs; multivariate input layers (refused by the code); float rounding"
ASSUMPTIONS = _ops.COMMON_ASSUMPTIONS + ["raw 'probs' are probabilities summing to one"]
EXPLANATION = "marginal-query equation decided by z3 for all parameter values, inputs and masks (per path)"


def masked_reference(sc, row, mask_row, penv):
    """layerwise marginal: an input layer over variable v yields where(mask[v], its integral, its value)"""
    vals = {}
    for sl in sc.topological_ordering():
        ins = [vals[i] for i in sc.layer_inputs(sl)]
        if isinstance(sl, SL.InputLayer):
            v = refsem.eval_input_layer(sl, row, penv)
            if len(sl.scope) == 1 and not isinstance(sl, SL.ConstantLayer):
                (var,) = tuple(sl.scope)
                mb = mask_row.get(var)
                if mb is not None and mb.re is not T.FALSE:
                    if isinstance(sl, SL.GaussianLayer):
                        lp = refsem.eval_parameter(sl.log_partition, penv) if sl.log_partition is not None else None
                        integ = np.asarray([Val.const(1.0) if lp is None else lp[k].exp() for k in range(sl.num_output_units)], dtype=object)
                    else:
                        n = refsem.discrete_domain(sc, var)
                        integ = None
                        for s in range(n):
                            x2 = dict(row)
                            x2[var] = Val.const(s)
                            u = refsem.eval_input_layer(sl, x2, penv)
                            integ = u if integ is None else integ + u
                    v = np.asarray([Val.where(mb, a, b) for a, b in zip(integ, v)], dtype=object)
            vals[sl] = v
        elif isinstance(sl, SL.SumLayer):
            w = refsem.eval_parameter(sl.weight, penv)
            cat = np.concatenate(ins)
            out = np.empty((sl.num_output_units,), dtype=object)
            for o in range(sl.num_output_units):
                acc = None
                for i in range(cat.shape[0]):
                    t = w[o, i] * cat[i]
                    acc = t if acc is None else acc + t
                out[o] = acc
            vals[sl] = out
        elif isinstance(sl, SL.HadamardLayer):
            v = ins[0]
            for a in ins[1:]:
                v = v * a
            vals[sl] = v
        elif isinstance(sl, SL.KroneckerLayer):
            v = ins[0]
            for a in ins[1:]:
                v = np.asarray([p * q for p in v for q in a], dtype=object)
            vals[sl] = v
        else:
            raise Unsupported(type(sl).__name__)
    return [vals[o] for o in sc.outputs]


def _setup(desc, seed, overrides):
    T.reset_interning()
    sc = families.build(desc["circuit"])
    senv = SymEnv(seed, overrides)
    leaves = circuit_check.setup_leaves(sc, senv, desc["semiring"] == "lse-sum", normalized=True)
    spec = input_spec(sc)
    B = desc["B"]
    x, rows = make_inputs(senv, spec, B, prefix="x")
    D = x.shape[1]
    mask = torch.zeros((B, D), dtype=torch.bool)
    mvals = {}
    mrows = []
    rng = random.Random(seed * 7919 + 13)
    for b in range(B):
        mr = {}
        for v in sorted(spec):
            name = f"m{b}_{v}"
            val = overrides.get(name)
            if val is None:
                val = rng.random() < 0.5
            t = T.var(name, "B")
            senv.ctx.env[t] = bool(val)
            mask[b, v] = bool(val)
            mr[v] = Val("bool", t)
        mrows.append(mr)
    return sc, senv, leaves, spec, x, rows, mask, mrows


def _concrete(desc, seed, overrides):
    """plain float64 run vs float oracle at one valuation.  returns (ok, msg)"""
    sc, senv, leaves, spec, x, rows, mask, mrows = _setup(desc, seed, overrides)
    sem = desc["semiring"]
    comp = TorchCompiler(semiring=sem, fold=desc["fold"], optimize=desc["optimize"])
    B = desc["B"]
    try:
        cc = comp.compile(sc)
        write_concrete(comp, senv, leaves)
        out = IntegrateQuery(cc)(x, integrate_vars=mask)
    except Exception as e:  # noqa
        tb = traceback.format_exc()
        return False, f"real code raised {type(e).__name__}: {e} at {circuit_check.repo_frame(tb)}"
    O, K = len(sc.outputs), sc.outputs[0].num_output_units
    if tuple(out.shape) != (B, O, K):
        return False, f"query output shape {tuple(out.shape)} != {(B, O, K)} (mask {mask.tolist()})"
    lin = circuit_check.to_linear(out, sem)
    for b in range(B):
        mr = {v: Val.const(bool(mask[b, v])) for v in spec}
        ref = masked_reference(sc, rows[b], mr, senv.penv)
        for o in range(O):
            for k in range(K):
                want = ref[o][k].concrete(senv.ctx.env)
                got = lin[b, o, k].item()
                if not V.close(got, want, rtol=1e-6, atol=1e-9):
                    return False, f"sample {b} (mask {mask[b].tolist()}): query returned {got!r} but the marginal is {want!r} (output {o} unit {k})"
    return True, "query agrees with the marginals on this input"


def run_case(desc, seed, tier):
    sem = desc["semiring"]
    res = {"status": "ok", "obligations": 0, "discharged": 0, "syntactic": 0, "queries": 0, "solver_s": 0.0, "paths": 0, "violations": [], "inconclusive": [], "stubs": [], "ops_validated": 0}
    if desc.get("mode") == "formats":
        return _formats_case(desc, seed, res)
    overrides = {}
    explored = 0
    nparams = 0
    sizes = {}

    def violation(kind, detail, ov):
        rp = dict(desc)
        rp["overrides"] = ov
        rp["seed"] = seed
        sig = f"{kind}|{families.describe(desc['circuit'])}|{sem}|fold={desc['fold']},opt={desc['optimize']}|B={desc['B']}"
        res["violations"].append({"signature": sig, "detail": detail, "replay": rp, "hash": case_hash(rp)})
        res["status"] = "violation"

    while explored < 20:
        sc, senv, leaves, spec, x, rows, mask, mrows = _setup(desc, seed, overrides)
        nparams = len(senv.param_vars)
        comp = TorchCompiler(semiring=sem, fold=desc["fold"], optimize=desc["optimize"])
        B = desc["B"]
        try:
            cc = comp.compile(sc)
            write_concrete(comp, senv, leaves)
            m = Shadow(senv.ctx)
            with m:
                bind_shadows(m, comp, senv, leaves)
                bind_inputs(m, x, rows)
                for b in range(B):
                    for v in spec:
                        m.bind(mask[b, v], np.asarray(mrows[b][v], dtype=object).reshape(()))
                out = IntegrateQuery(cc)(x, integrate_vars=mask)
                arr = m.get(out)
                if arr is None:
                    arr = lift_concrete(out)
        except (Unsupported, TranslatorMismatch) as e:
            ok, msg = _concrete(desc, seed, overrides)
            if ok:
                raise HarnessError(f"shadow engine failed, concrete run agrees: {type(e).__name__}: {str(e)[:500]}")
            violation("value(concrete-fallback)", msg + f" [shadow: {type(e).__name__}: {str(e)[:200]}]", dict(overrides))
            break
        except HarnessError:
            raise
        except Exception as e:  # noqa
            tb = traceback.format_exc()
            ok, msg = _concrete(desc, seed, overrides)
            if ok:
                raise HarnessError(f"exception only under the shadow engine: {type(e).__name__}: {e}\n{tb[-1500:]}")
            violation(f"raises:{type(e).__name__}@{circuit_check.repo_frame(tb)}", msg, dict(overrides))
            break
        explored += 1
        res["paths"] += 1
        res["ops_validated"] += m.n_validated
        O, K = len(sc.outputs), sc.outputs[0].num_output_units
        if tuple(out.shape) != (B, O, K):
            ok, msg = _concrete(desc, seed, overrides)
            violation("shape", f"query output shape {tuple(out.shape)} != {(B, O, K)}; replay: {msg}", dict(overrides))
            break
        sess = Session(senv)
        sess.sanity()
        stop = False
        for b in range(B):
            ref = masked_reference(sc, rows[b], mrows[b], senv.penv)
            for o in range(O):
                for k in range(K):
                    goal = eq_goal(denote(arr[b, o, k], sem), ref[o][k])
                    # split on the mask booleans of this row (finite domain) for the identity stage
                    bools = [t for t in T.free_symbols([goal]) if t.sort == "B"]
                    ok_all = True
                    for assign in itertools.product([False, True], repeat=len(bools)):
                        mp = {t: T.boolconst(a) for t, a in zip(bools, assign)}
                        (g2,) = T.substitute([goal], mp)
                        fix = [t if a else T.not_(t) for t, a in zip(bools, assign)]
                        # only mask assignments compatible with the path condition belong to this path
                        r0, _ = sess.q.check_sat([tt for tt, _ in senv.ctx.pc] + fix)
                        if r0 == "unsat":
                            continue
                        old_pc = list(senv.ctx.pc)
                        senv.ctx.pc.extend((f, "mask case") for f in fix)
                        r = sess.prove(g2, f"path{explored}:out[{b},{o},{k}] mask={assign}")
                        senv.ctx.pc[:] = old_pc
                        sizes[f"out[{b},{o},{k}]"] = T.size([g2])
                        if r == "cex":
                            cex = sess.cex.pop()
                            ov = {s_.data: v_ for s_, v_ in cex["env"].items() if s_.op == "var" and not s_.data.startswith(("MAX#", "LOGABS", "ARG"))}
                            for t, a in zip(bools, assign):
                                ov[t.data] = a
                            for t in T.free_symbols([tt for tt, _ in old_pc]):
                                if t.sort == "B" and t.data not in ov:
                                    ov[t.data] = bool(senv.ctx.env[t])
                            ov.update(circuit_check.softmax_overrides(senv.ctx, cex["env"]))
                            okc, msg = _concrete(desc, seed, ov)
                            if okc:
                                ov2 = {t.data: a for t, a in zip(bools, assign)}
                                okc, msg = _concrete(desc, seed, {**overrides, **ov2})
                                ov = {**overrides, **ov2}
                            if okc:
                                res["inconclusive"].append(f"out[{b},{o},{k}] mask={assign}: solver model not reproduced")
                            else:
                                violation("value", msg, ov)
                            stop = True
                            ok_all = False
                            break
                    if stop:
                        break
                if stop:
                    break
            if stop:
                break
        res["obligations"] += sess.obligations
        res["discharged"] += sess.discharged
        res["syntactic"] += sess.syntactic
        res["queries"] += sess.q.n_queries
        res["solver_s"] += sess.q.time
        res["inconclusive"].extend(sess.inconclusive)
        res["stubs"] = sorted(senv.ctx.stubs_used)
        if stop:
            break
        # other paths: mask valuations violating the path condition
        if not senv.ctx.pc:
            break
        seen = desc.setdefault("_pcs", [])
        seen.append(T.and_(*[t for t, _ in senv.ctx.pc]))
        r, model = sess.q.check_sat([T.not_(p) for p in seen])
        if r != "sat":
            if r != "unsat":
                res["inconclusive"].append("could not decide whether further paths exist")
            break
        bools = [t for t in T.free_symbols(seen) if t.sort == "B"]
        env = sess.q.model_env(model, bools)
        overrides = {t.data: bool(v) for t, v in env.items()}
    else:
        res["inconclusive"].append("path budget (20) exhausted")
    desc.pop("_pcs", None)
    res["hash"] = case_hash([desc["circuit"], sem, desc["fold"], desc["optimize"], desc["B"]])
    res["nontrivial"] = nparams >= 2
    big = sorted(sizes.items(), key=lambda kv: -kv[1])[:1]
    res["sample"] = {"circuit": desc["circuit"], "semiring": sem, "fold": desc["fold"], "optimize": desc["optimize"], "B": desc["B"], "paths": res["paths"], "symbolic_parameters": nparams, "largest_goal_nodes": big[0][1] if big else 0}
    return res


def _formats_case(desc, seed, res):
    """Scope / sequence-of-Scope formats against the tensor-mask format (all subsets), rejection of
    variables outside the scope; concrete masks, symbolic content is covered by the tensor-mask cases."""
    T.reset_interning()
    sc = families.build(desc["circuit"])
    sem = desc["semiring"]
    senv = SymEnv(seed)
    leaves = circuit_check.setup_leaves(sc, senv, sem == "lse-sum", normalized=True)
    spec = input_spec(sc)
    B = desc["B"]
    x, rows = make_inputs(senv, spec, B, prefix="x")
    comp = TorchCompiler(semiring=sem, fold=desc["fold"], optimize=desc["optimize"])
    cc = comp.compile(sc)
    write_concrete(comp, senv, leaves)
    q = IntegrateQuery(cc)
    vars_ = sorted(spec)
    D = x.shape[1]
    n = 0

    def viol(kind, detail, extra):
        rp = dict(desc)
        rp.update(extra)
        rp["seed"] = seed
        res["violations"].append({"signature": f"{kind}|{families.describe(desc['circuit'])}|{sem}|fold={desc['fold']},opt={desc['optimize']}|B={B}", "detail": detail, "replay": rp, "hash": case_hash(rp)})
        res["status"] = "violation"

    for r in range(0, len(vars_) + 1):
        for z in itertools.combinations(vars_, r):
            mask = torch.zeros((B, D), dtype=torch.bool)
            for v in z:
                mask[:, v] = True
            try:
                a = q(x, integrate_vars=mask)
                b1 = q(x, integrate_vars=Scope(z))
                b2 = q(x, integrate_vars=[Scope(z)] * B)
            except Exception as e:  # noqa
                tb = traceback.format_exc()
                viol(f"raises:{type(e).__name__}@{circuit_check.repo_frame(tb)}", f"scope {z}: {type(e).__name__}: {e}", {"scope": list(z)})
                continue
            n += 1
            res["obligations"] += 2
            if a.shape == b1.shape and torch.allclose(a, b1, equal_nan=True):
                res["discharged"] += 1
            else:
                viol("scope-format", f"integrate_vars=Scope({z}) differs from the equivalent mask tensor: {b1.tolist()} vs {a.tolist()}", {"scope": list(z)})
            if a.shape == b2.shape and torch.allclose(a, b2, equal_nan=True):
                res["discharged"] += 1
            else:
                viol("scope-list-format", f"integrate_vars=[Scope({z})]*B differs from the equivalent mask tensor", {"scope": list(z)})
    # per-sample different scopes
    if B >= 2 and len(vars_) >= 2:
        scopes = [Scope([vars_[i % len(vars_)]]) for i in range(B)]
        mask = torch.zeros((B, D), dtype=torch.bool)
        for i, s in enumerate(scopes):
            for v in s:
                mask[i, v] = True
        a = q(x, integrate_vars=mask)
        b = q(x, integrate_vars=scopes)
        res["obligations"] += 1
        if a.shape == b.shape and torch.allclose(a, b, equal_nan=True):
            res["discharged"] += 1
        else:
            viol("per-sample-scopes", "a list with one scope per sample differs from the equivalent mask tensor", {})
    # lists that mix empty scopes ("marginalise nothing for this sample") with non-empty ones
    if B >= 2:
        for pattern in ([0, 1], [1, 0], [0, 0], [0, 2]):
            scopes = []
            for i in range(B):
                kind = pattern[i % len(pattern)]
                scopes.append(Scope([]) if kind == 0 else Scope(vars_[: min(kind, len(vars_))]))
            mask = torch.zeros((B, D), dtype=torch.bool)
            for i, s_ in enumerate(scopes):
                for v in s_:
                    mask[i, v] = True
            try:
                a = q(x, integrate_vars=mask)
                b = q(x, integrate_vars=scopes)
            except Exception as e:  # noqa
                tb = traceback.format_exc()
                viol(f"raises:{type(e).__name__}@{circuit_check.repo_frame(tb)}", f"scopes {scopes}: {type(e).__name__}: {e}", {})
                continue
            res["obligations"] += 1
            if a.shape == b.shape and torch.allclose(a, b, equal_nan=True):
                res["discharged"] += 1
            else:
                viol("empty-scopes-in-list", f"integrate_vars={scopes} differs from the equivalent mask tensor {mask.tolist()}", {})
    # rejection of variables outside the scope
    outside = max(vars_) + 1
    for bad in (Scope([outside]), [Scope([vars_[0], outside])] + [Scope([])] * (B - 1)):
        res["obligations"] += 1
        try:
            q(x, integrate_vars=bad)
            viol("out-of-scope-accepted", f"integrate_vars={bad} (variable {outside} not in the circuit scope) was accepted", {})
        except (ValueError, IndexError):
            res["discharged"] += 1
    res["hash"] = case_hash([desc["circuit"], sem, desc["fold"], desc["optimize"], B, "formats"])
    res["nontrivial"] = True
    res["paths"] = n
    res["sample"] = {"circuit": desc["circuit"], "mode": "formats", "scopes_tried": n}
    return res


def replay(rp):
    if rp.get("mode") == "formats":
        res = {"status": "ok", "obligations": 0, "discharged": 0, "violations": []}
        _formats_case(dict(rp), rp.get("seed", 0), res)
        if res["violations"]:
            return False, res["violations"][0]["detail"]
        return True, "formats agree"
    return _concrete(rp, rp.get("seed", 0), rp.get("overrides", {}))


def _bases():
    H = lambda **k: dict({"kind": "hand"}, **k)
    return [
        H(name="nested", K=2, input="cat-logits", ids=[0, 1, 2]),
        H(name="nested", K=2, input="cat-probs", ids=[0, 1, 2]),
        H(name="nested", K=2, input="cat-softmax", ids=[0, 1, 2]),
        H(name="nested", K=2, input="gaussian", ids=[0, 1, 2]),
        H(name="nested", K=2, input="gaussian-lp", ids=[0, 1, 2]),
        H(name="shared", K=2, input="cat-logits"),
        H(name="mixed-inputs", K=2, inputs=["cat-logits", "gaussian", "cat-probs"]),
        H(name="had3", K=2, input="cat-logits", Ko=2),
        {"kind": "rg", "algo": "rbt", "nvars": 4, "sp": "cp", "input": "cat-logits", "weights": "raw", "K": 2},
        {"kind": "rg", "algo": "qt", "shape": [1, 2, 2], "sp": "tucker", "input": "cat-softmax", "weights": "softmax", "K": 2},
        {"kind": "rg", "algo": "lt", "nvars": 3, "sp": "cp-t", "input": "gaussian", "weights": "raw", "K": 2},
    ]


def cases(tier, seed):
    rnd = random.Random(seed)
    out = []
    sems = ["sum-product", "lse-sum"]
    bases = _bases()
    flags = [(False, False), (True, True)] if tier == "quick" else [(False, False), (True, False), (False, True), (True, True)]
    for i, b in enumerate(bases):
        for fi, (fold, opt) in enumerate(flags):
            Bs = [1, 2, 3] if tier != "quick" else [[2, 1, 3][(i + fi + seed) % 3]]
            if fold:
                Bs = sorted(set(Bs + [3]))  # 3 input layers folded: batch size == number of folds
            for B in Bs:
                ss = sems if tier != "quick" else [sems[(i + fi + B) % 2]]
                for s in ss:
                    out.append({"circuit": b, "semiring": s, "fold": fold, "optimize": opt, "B": B})
    for i, b in enumerate(bases[:6] if tier == "quick" else bases):
        out.append({"circuit": b, "semiring": sems[i % 2], "fold": bool(i % 2), "optimize": bool((i // 2) % 2), "B": 2, "mode": "formats"})
    return out

"""C12 -- circuits built with normalised parameterisations are normalised."""
from __future__ import annotations

import random

from cvf import circuit_check, families
from cvf import terms as T
from checks import _ops

PROPERTY = "C12"
LEVEL = "translation_validation"
CASE_TIMEOUT = {"quick": 600, "thorough": 1800}
ENCODED = [
    "cirkit.templates.region_graph.graph.RegionGraph.build_circuit (cp / cp-t / tucker, mixing and dense n-ary sums)",
    "cirkit.templates.data_modalities.image_data/tabular_data",
    "cirkit.templates.pgms.hmm/fully_factorized",
    "cirkit.templates.utils.parameterization_to_factory/name_to_input_layer_factory",
    "cirkit.symbolic.parameters.mixing_weight_factory/MixingWeightParameter/SoftmaxParameter",
    "cirkit.symbolic.layers.CategoricalLayer/GaussianLayer defaults",
    "cirkit.backend.torch.parameters.nodes.TorchSoftmaxParameter/TorchMixingWeightParameter/TorchScaledSigmoidParameter",
    "cirkit.symbolic.functional.integrate + compilation and evaluation (as C01-C03)",
] 
RULE = (
    "one case = (template call with normalised parameterisation, semiring): (a) integrate(c) over the whole scope is "
    "compiled and executed symbolically and z3 decides Z(theta) == 1 for ALL values of the unconstrained parameters "
    "(softmax outputs are abstracted to arbitrary points of the open simplex, see assumptions); (b) c itself is "
    "executed symbolically, compared with the reference semantics, and the denoted value is shown non-negative "
    "(syntactic positivity or z3); in log space every definedness obligation (argument of each log > 0 for in-support "
    "inputs) is discharged. distinct = (descriptor, semiring); non-trivial = >= 2 symbolic parameters."
)
BOUNDS = "region graphs from every algorithm with <= 6 variables (images <= 1x2x3), {cp,cp-t,tucker}, K <= 2, classes <= 2, mixing and dense n-ary sums; categorical (2-3 and 256 categories) and Gaussian inputs; hmm length <= 4; fully-factorised <= 4 variables"
OUTSIDE = "binomial inputs (torch.distributions lgamma/clamp path is not encoded), Chow-Liu structure learning numerics, larger images, float rounding"
ASSUMPTIONS = _ops.COMMON_ASSUMPTIONS + [
    "softmax(theta) of a vector of plain parameters is abstracted to an arbitrary point of the open simplex (theta -> softmax(theta) is onto it): validity for all simplex points implies validity for all theta",
    "the integral of a normalised Gaussian is 1 (axiom); scaled-sigmoid stddev is positive",
]
EXPLANATION = "Z(theta)=1 and non-negativity decided by z3 over all unconstrained parameter values"


def build(d):
    """template members"""
    if d.get("kind") == "pipe":
        import cirkit.symbolic.functional as SF

        return SF.integrate(build(d["base"]))
    if d["kind"] == "image":
        from cirkit.templates.data_modalities import image_data

        return image_data(
            tuple(d["shape"]),
            region_graph=d["rg"],
            input_layer=d["input"],
            num_input_units=d.get("K", 2),
            sum_product_layer=d["sp"],
            num_sum_units=d.get("K", 2),
            num_classes=d.get("classes", 1),
            use_mixing_weights=d.get("mixing", True),
        )
    if d["kind"] == "tabular":
        from cirkit.templates.data_modalities import tabular_data

        return tabular_data(
            "random-binary-tree",
            num_features=d["n"],
            input_layers=d["layers"],
            num_input_units=d.get("K", 2),
            sum_product_layer=d["sp"],
            num_sum_units=d.get("K", 2),
            num_classes=d.get("classes", 1),
            use_mixing_weights=d.get("mixing", True),
        )
    if d["kind"] == "hmm":
        from cirkit.templates.pgms import hmm

        return hmm(d["ordering"], input_layer=d["input"], num_latent_states=d.get("K", 2), input_layer_kwargs=d.get("kwargs"))
    if d["kind"] == "ff":
        from cirkit.templates.pgms import fully_factorized

        return fully_factorized(d["n"], input_layer=d["input"], input_layer_kwargs=d.get("kwargs"))
    return families.build(d)


def _all(tier):
    out = []
    cat3 = {"num_categories": 3}
    for rg in ("quad-tree-2", "quad-tree-4", "quad-graph", "random-binary-tree", "poon-domingos"):
        for sp in ("cp", "cp-t", "tucker"):
            out.append({"kind": "image", "shape": [1, 2, 2], "rg": rg, "input": "gaussian", "sp": sp, "K": 2})
    out.append({"kind": "image", "shape": [1, 1, 2], "rg": "quad-graph", "input": "categorical", "sp": "cp", "K": 2})
    out.append({"kind": "image", "shape": [1, 2, 2], "rg": "quad-tree-2", "input": "categorical", "sp": "cp-t", "K": 1, "classes": 2})
    out.append({"kind": "image", "shape": [1, 2, 3], "rg": "quad-graph", "input": "gaussian", "sp": "cp", "K": 2, "mixing": False})
    out.append({"kind": "image", "shape": [2, 1, 2], "rg": "poon-domingos", "input": "gaussian", "sp": "tucker", "K": 2})
    for sp in ("cp", "cp-t", "tucker"):
        out.append({"kind": "tabular", "n": 4, "layers": {"name": "categorical", "args": cat3}, "sp": sp, "K": 2})
        out.append({"kind": "tabular", "n": 3, "layers": [{"name": "categorical", "args": {"num_categories": 2}}, {"name": "gaussian", "args": {}}, {"name": "categorical", "args": cat3}], "sp": sp, "K": 2, "classes": 2})
    out.append({"kind": "hmm", "ordering": [0, 1, 2], "input": "categorical", "K": 2, "kwargs": cat3})
    out.append({"kind": "hmm", "ordering": [2, 0, 3, 1], "input": "categorical", "K": 2, "kwargs": cat3})
    out.append({"kind": "hmm", "ordering": [1, 0, 2], "input": "gaussian", "K": 2})
    out.append({"kind": "ff", "n": 3, "input": "categorical", "kwargs": cat3})
    out.append({"kind": "ff", "n": 4, "input": "gaussian"})
    # region-graph family of C01 with softmax weights (and mixing)
    for a in ({"algo": "rbt", "nvars": 5, "rep": 2, "rgseed": 1}, {"algo": "lt", "nvars": 4, "rep": 2, "randomize": True}, {"algo": "ff", "nvars": 4, "rep": 2}, {"algo": "qg", "shape": [1, 2, 3]}, {"algo": "pd", "shape": [1, 2, 2], "delta": 1}, {"algo": "rbt", "nvars": 6}):
        for sp in ("cp", "cp-t", "tucker"):
            for mix in (None, "softmax"):
                d = {"kind": "rg", "sp": sp, "input": "cat-softmax", "weights": "softmax", "K": 2}
                d.update(a)
                if mix:
                    d["mixing"] = mix
                out.append(d)
    return out


def cases(tier, seed):
    rnd = random.Random(seed)
    allc = _all(tier)
    if tier != "quick":
        # seeded random normalised region-graph circuits (softmax weights / mixing, default categorical inputs)
        allc = allc + [c for c in families.random_members(3001, 120, normalized=True) if not c.get("explicit")]
    sems = ["sum-product", "lse-sum", "complex-lse-sum"]
    out = []
    if tier == "quick":
        core = [c for c in allc if c["kind"] in ("hmm", "ff") or (c["kind"] == "image" and c["input"] == "categorical")]
        rest = [c for c in allc if c not in core]
        rnd.shuffle(rest)
        for i, c in enumerate(core + rest[:18]):
            out.append({"circuit": c, "semiring": sems[(i + seed) % 3]})
    else:
        for c in allc:
            for s in sems:
                out.append({"circuit": c, "semiring": s})
    return out


def run_case(desc, seed, tier):
    c, sem = desc["circuit"], desc["semiring"]
    flags = [(False, False), (True, True)] if tier == "quick" else circuit_check.FLAGS
    # (0) the template output must be smooth and decomposable over the requested variables
    from cvf.harness import case_hash

    T.reset_interning()
    sc0 = build(c)
    want_scope = _expected_scope(c)
    problems = []
    if not (sc0.is_smooth and sc0.is_decomposable):
        problems.append(f"circuit is smooth={sc0.is_smooth} decomposable={sc0.is_decomposable}")
    if want_scope is not None and set(sc0.scope) != want_scope:
        problems.append(f"circuit scope {sorted(sc0.scope)} != requested variables {sorted(want_scope)}")
    if problems:
        rp = {"kind": "structure", "circuit": c}
        return {
            "status": "violation",
            "violations": [{"signature": f"structure|{families.describe(c)}", "detail": "; ".join(problems), "replay": rp, "hash": case_hash(rp)}],
            "hash": case_hash([c, sem]),
            "nontrivial": True,
        }
    # (a) partition function == 1
    r1 = circuit_check.eval_case({"kind": "pipe", "base": c, "ops": [["integrate", None]]}, sem, seed, flags=flags, batches=(1,), build=build, oracle="one", monotone=False)
    if r1.get("violations") or r1.get("status") == "error":
        return r1
    # (b) evaluation == denotation, denotation non-negative, log-space obligations
    r2 = circuit_check.eval_case(c, sem, seed, flags=flags[-1:], batches=(1,) if tier == "quick" else (2,), build=build, nonneg=True, monotone=False, add_fold_batch=tier != "quick")
    for k in ("obligations", "discharged", "syntactic", "queries", "solver_s", "paths", "ops_validated"):
        r2[k] = r2.get(k, 0) + r1.get(k, 0)
    r2["inconclusive"] = r1.get("inconclusive", []) + r2.get("inconclusive", [])
    r2["violations"] = r1.get("violations", []) + r2.get("violations", [])
    return r2


def _expected_scope(c):
    if c["kind"] == "image":
        n = 1
        for d_ in c["shape"]:
            n *= d_
        return set(range(n))
    if c["kind"] in ("tabular", "ff"):
        return set(range(c["n"]))
    if c["kind"] == "hmm":
        return set(c["ordering"])
    return None


def replay(rp):
    if rp.get("kind") == "structure":
        sc0 = build(rp["circuit"])
        want = _expected_scope(rp["circuit"])
        ok = sc0.is_smooth and sc0.is_decomposable and (want is None or set(sc0.scope) == want)
        return ok, f"smooth={sc0.is_smooth} decomposable={sc0.is_decomposable} scope={sorted(sc0.scope)}"
    ok, msg, _ = circuit_check.concrete_eval(
        rp["circuit"], rp["semiring"], rp["fold"], rp["optimize"], rp["B"], rp.get("overrides", {}), rp.get("seed", 0), rp.get("monotone", False), build, rp.get("normalized", False), rp.get("oracle")
    )
    return ok, msg

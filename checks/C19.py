"""C19 -- saved parameters reproduce the circuit after reload."""
from __future__ import annotations

import random
import traceback

import torch

from cirkit.backend.torch.compiler import TorchCompiler
from cirkit.symbolic import parameters as SP
from cirkit.symbolic.circuit import pipeline_topological_ordering

from checks import _ops
from cvf import circuit_check, families
from cvf import terms as T
from cvf import vals as V
from cvf.harness import HarnessError, Session, SymEnv, bind_inputs, case_hash, denote, eq_goal, input_spec, make_inputs, circuit_leaves
from cvf.shadow import Shadow, TranslatorMismatch, Unsupported, lift_concrete

PROPERTY = "C19"
LEVEL = "translation_validation"
CASE_TIMEOUT = {"quick": 600, "thorough": 1800}
ENCODED = [
    "cirkit.backend.torch.graph.modules.TorchDiAcyclicGraph.__init__ (module registration), AddressBook.__init__ (index buffers)",
    "cirkit.backend.torch.parameters.nodes.TorchTensorParameter (tensor registration, forward), TorchPointerParameter",
    "cirkit.backend.torch.parameters.parameter.TorchParameter",
    "cirkit.backend.torch.circuits.TorchCircuit (state_dict / load_state_dict through torch.nn.Module, executed under the shadow engine: detach, copy_)",
    "cirkit.backend.torch.compiler.TorchCompiler.compile_pipeline (two independent compiler contexts)",
] + _ops.COMMON_ENCODED
RULE = (
    "one case = (circuit or operator pipeline, semiring, flags, which state dict is transferred).  The symbolic circuit "
    "is compiled twice in two independent contexts A and B (B has fresh random initial values, also for frozen "
    "tensors).  All tensor entries of A are solver variables.  Under the shadow engine the real state_dict() of A "
    "(of the operand circuits, or of the derived circuit) is taken and the real load_state_dict(strict=True) of B "
    "copies it (aten.detach / aten.copy_ are executed symbolically); then A and B (operands and derived circuit) are "
    "executed symbolically on the same symbolic inputs and z3 decides B(x) == A(x) for all parameter values and "
    "inputs.  A tensor that is not transferred keeps B's concrete initial value and the equality fails.  The "
    "sequence load -> reset_parameters(B) -> load again is included.  Structural audit: strict loading reports no "
    "missing/unexpected key; every learnable (and every frozen, non-constant) tensor of the circuit occurs in its "
    "state dict -- exactly once (by storage) when the circuit holds no reference parameter, at least once otherwise; "
    "state-dict keys of A and B coincide.  distinct = (descriptor, semiring); non-trivial = >= 2 symbolic parameters."
)
BOUNDS = "circuits with <= 4 variables, K <= 2, pipelines of <= 2 operators, frozen-parameter variants (all / odd / inputs / sums), 4 flag pairs (2 in quick), save/load/reset/load"
OUTSIDE = "byte-level serialisation (torch.save / torch.load), loading across different flags or different symbolic circuits, float rounding"
ASSUMPTIONS = _ops.COMMON_ASSUMPTIONS + [
    "'exactly once' is required of circuits without reference parameters; a derived circuit reaches one operand tensor through several pointer nodes, so its own state dict lists that tensor once per pointer (all aliases of the same storage) -- required there: at least once, and all occurrences alias",
]
EXPLANATION = "state_dict/load_state_dict executed symbolically on the real modules; equality of reloaded and original circuit decided by z3 for all parameter values and inputs"


def _bases():
    return {
        "cat3": {"kind": "hand", "name": "nested", "K": 2, "input": "cat-logits", "ids": [0, 1, 2]},
        "cat3s": {"kind": "hand", "name": "nested", "K": 2, "input": "cat-softmax", "ids": [2, 5, 3]},
        "emb3": {"kind": "hand", "name": "had3", "K": 2, "input": "embedding", "Ko": 2},
        "mixed": {"kind": "hand", "name": "mixed-inputs", "K": 2},
        "shared": {"kind": "hand", "name": "shared", "K": 2, "input": "cat-logits"},
        "gausslp": {"kind": "hand", "name": "nested", "K": 2, "input": "gaussian-lp"},
        "gaussd": {"kind": "hand", "name": "nested", "K": 2, "input": "gaussian-default"},
        "rbt4": {"kind": "rg", "algo": "rbt", "nvars": 4, "sp": "cp", "input": "cat-logits", "weights": "raw", "K": 2},
        "qg": {"kind": "rg", "algo": "qg", "shape": [1, 2, 2], "sp": "cp-t", "input": "embedding", "weights": "raw", "K": 2},
        "tucker": {"kind": "rg", "algo": "lt", "nvars": 3, "sp": "tucker", "input": "cat-softmax", "weights": "softmax", "K": 2},
        "poly": {"kind": "hand", "name": "nested", "K": 2, "input": "poly2"},
        "nary": {"kind": "hand", "name": "nary-sum", "K": 2, "input": "embedding"},
        "sumsum": {"kind": "hand", "name": "sum-sum", "K": 2, "input": "embedding"},
        "mixing": {"kind": "rg", "algo": "rbt", "nvars": 4, "rep": 2, "sp": "cp", "input": "cat-softmax", "weights": "softmax", "mixing": "softmax", "K": 2},
    }


def _all(tier):
    B = _bases()
    out = []

    def add(base, *ops, freeze=None, via="operands"):
        b = dict(B[base])
        if freeze:
            b["freeze"] = freeze
        c = {"kind": "pipe", "base": b, "ops": [list(o) for o in ops]} if ops else b
        out.append({"circuit": c, "via": via})

    for b in B:
        add(b)
    for b in ("cat3", "emb3", "gausslp", "qg", "mixed", "rbt4", "poly", "shared"):
        for fr in ("all", "odd", "inputs", "sums"):
            add(b, freeze=fr)
    for via in ("operands", "derived"):
        add("cat3", ("integrate", None), via=via)
        add("gausslp", ("integrate", [0, 2]), via=via)
        add("emb3", ("square",), via=via)
        add("emb3", ("square",), ("integrate", None), via=via)
        add("cat3", ("multiply_other",), via=via)
        add("gausslp", ("conjugate",), via=via)
        add("poly", ("differentiate", 1), via=via)
        add("cat3", ("evidence", {"1": 2}), via=via)
        add("mixed", ("evidence", {"0": 1}), ("integrate", [1]), via=via)
        add("cat3", ("concatenate",), via=via)
        add("emb3", ("square",), freeze="odd", via=via)
        add("gausslp", ("integrate", None), freeze="inputs", via=via)
        add("qg", ("square",), ("integrate", None), freeze="sums", via=via)
    return out


def _is_core(d):
    c = d["circuit"]
    if c["kind"] == "pipe":
        return len(c["ops"]) == 1 and c["ops"][0][0] in ("integrate", "square", "evidence") and c["base"].get("freeze") in (None, "odd", "inputs")
    return c.get("freeze") in ("all", "odd") and c.get("name") in ("nested", "had3", "mixed-inputs") or c.get("name") in ("shared", "sum-sum")


def _sem_ok(c, sem):
    base = c["base"] if c["kind"] == "pipe" else c
    if sem == "lse-sum" and (str(base.get("input", "")).startswith("poly") or (c["kind"] == "pipe" and any(o[0] == "differentiate" for o in c["ops"]))):
        return False
    return True


def cases(tier, seed):
    rnd = random.Random(seed)
    allc = _all(tier)
    sems = ["sum-product", "lse-sum", "complex-lse-sum"]
    out = []
    if tier == "quick":
        core = [c for c in allc if _is_core(c)]
        rest = [c for c in allc if not _is_core(c)]
        rnd.shuffle(rest)
        for i, c in enumerate(core + rest[:10]):
            d = dict(c)
            s = sems[(i + seed) % 3]
            d["semiring"] = s if _sem_ok(c["circuit"], s) else "complex-lse-sum"
            out.append(d)
    else:
        for c in allc:
            for s in sems:
                if _sem_ok(c["circuit"], s):
                    d = dict(c)
                    d["semiring"] = s
                    out.append(d)
        # the circuit families of C01 and seeded random region-graph circuits (some with frozen tensors)
        from checks import C01

        extra = [c for c in C01._hand(tier) if c.get("name") != "hetero-params"] + families.random_members(2001, 150)
        for i, c in enumerate(extra):
            c = dict(c)
            if i % 4 == 1:
                c["freeze"] = ["all", "odd", "inputs", "sums"][(i // 4) % 4]
            s = sems[i % 3]
            if not _sem_ok(c, s):
                s = "sum-product"
            out.append({"circuit": c, "via": "operands", "semiring": s})
    return out


# ---------------------------------------------------------------------------------------------


class Found(Exception):
    def __init__(self, kind, detail):
        super().__init__(detail)
        self.kind = kind
        self.detail = detail


def _roots(sc):
    return [c for c in pipeline_topological_ordering([sc]) if c.operation is None]


def _has_refs(c) -> bool:
    for sl in c.layers:
        for g in sl.params.values():
            if any(isinstance(n, SP.ReferenceParameter) for n in g.nodes):
                return True
    return False


def _compile_pair(sc, sem, fold, opt):
    compA = TorchCompiler(semiring=sem, fold=fold, optimize=opt)
    cdA = compA.compile(sc)
    compB = TorchCompiler(semiring=sem, fold=fold, optimize=opt)
    cdB = compB.compile(sc)
    roots = _roots(sc)
    rA = [compA.get_compiled_circuit(r) for r in roots]
    rB = [compB.get_compiled_circuit(r) for r in roots]
    return compA, compB, cdA, cdB, roots, rA, rB


def _audit(sc, comp, roots, rcc, cd, other_keys):
    """every non-constant tensor parameter of a circuit is in that circuit's state dict"""
    mods = list(zip(roots, rcc))
    if sc.operation is not None:
        mods.append((sc, cd))
    for ci, (c, cc) in enumerate(mods):
        sd = cc.state_dict()
        if list(sd.keys()) != other_keys[ci]:
            raise Found("keys-differ", f"state-dict keys of two compilations of the same circuit differ: {sorted(set(sd) ^ set(other_keys[ci]))[:4]}")
        by_ptr = {}
        for k, v in sd.items():
            by_ptr.setdefault((v.untyped_storage().data_ptr(), v.storage_offset(), tuple(v.shape)), []).append(k)
        # tensors the circuit itself reads (its own, and those it reaches through references)
        leaves = [p for p in circuit_leaves(c) if not isinstance(p, SP.ConstantParameter)]
        seen_tp = set()
        for p in leaves:
            if not comp.state.has_compiled_parameter(p):
                continue
            tp, _ = comp.state.retrieve_compiled_parameter(p)
            if id(tp) in seen_tp:
                continue
            seen_tp.add(id(tp))
            t = tp._ptensor
            key = (t.untyped_storage().data_ptr(), t.storage_offset(), tuple(t.shape))
            n = len(by_ptr.get(key, []))
            what = "learnable" if p.learnable else "frozen (non-constant)"
            if n == 0:
                raise Found("tensor-missing", f"{what} tensor {tuple(t.shape)} of the circuit is not in its state dict")
            if n > 1 and not _has_refs(c) and c.operation is None:
                raise Found("tensor-duplicated", f"{what} tensor {tuple(t.shape)} occurs {n} times in the state dict: {by_ptr[key][:3]}")


def _keys(roots_cc, cd, sc):
    ks = [list(cc.state_dict().keys()) for cc in roots_cc]
    if sc.operation is not None:
        ks.append(list(cd.state_dict().keys()))
    return ks


def _transfer(via, rA, rB, cdA, cdB):
    """the save/load/reset/load sequence on the real modules"""
    pairs = list(zip(rA, rB)) if via == "operands" else [(cdA, cdB)]
    for a, b in pairs:
        sd = a.state_dict()
        r = b.load_state_dict(sd, strict=True)
        if r.missing_keys or r.unexpected_keys:
            raise Found("load-keys", f"missing={r.missing_keys[:3]} unexpected={r.unexpected_keys[:3]}")
    for _, b in pairs:
        b.reset_parameters()
    for a, b in pairs:
        b.load_state_dict(a.state_dict(), strict=True)


def _setup(circuit, sem, seed, monotone, overrides=None):
    T.reset_interning()
    sc = families.build(circuit)
    senv = SymEnv(seed, overrides)
    if monotone is None:
        monotone = sem == "lse-sum"
    circuit_check.SYMBOLIC_OBS[0] = False
    leaves = circuit_check.setup_leaves(sc, senv, monotone, False)
    return sc, senv, leaves, monotone


def _write(comp, senv, leaves):
    for p in leaves:
        if p not in senv.leaf_names or not comp.state.has_compiled_parameter(p):
            continue
        tp, idx = comp.state.retrieve_compiled_parameter(p)
        sl = tp._ptensor.data[idx]
        with torch.no_grad():
            sl.copy_(torch.as_tensor(senv.concrete_leaf(p), dtype=sl.dtype))


def _scramble(cc):
    """fresh instance 'whatever its initial values': make B's values differ from A's (also frozen ones)"""
    g = torch.Generator().manual_seed(12345)
    with torch.no_grad():
        for q in cc.parameters():
            if q.is_floating_point() or q.is_complex():
                q.copy_(torch.rand(q.shape, generator=g, dtype=torch.float64).to(q.dtype) * 0.5 + 0.25)


def concrete_run(circuit, sem, fold, opt, via, seed, monotone, overrides):
    sc, senv, leaves, monotone = _setup(circuit, sem, seed, monotone, overrides)
    B = 2 if sc.scope else 1
    try:
        compA, compB, cdA, cdB, roots, rA, rB = _compile_pair(sc, sem, fold, opt)
        _write(compA, senv, leaves)
        for b in rB + [cdB]:
            _scramble(b)
        _audit(sc, compA, roots, rA, cdA, _keys(rB, cdB, sc))
        _transfer(via, rA, rB, cdA, cdB)
        mods = [(sc, cdA, cdB, "circuit")] + ([(r, a, b, f"operand {i}") for i, (r, a, b) in enumerate(zip(roots, rA, rB))] if sc.operation is not None and via == "operands" else [])
        for i, (c, a, b, who) in enumerate(mods):
            x, rows = make_inputs(senv, input_spec(c), B, prefix=f"x{i}_")
            oa = a(x) if c.scope else a()
            ob = b(x) if c.scope else b()
            if oa.shape != ob.shape:
                return False, f"{who}: shapes differ {tuple(oa.shape)} vs {tuple(ob.shape)}"
            la, lb = circuit_check.to_linear(oa, sem), circuit_check.to_linear(ob, sem)
            for ia in range(la.size):
                va, vb = la.reshape(-1)[ia].item(), lb.reshape(-1)[ia].item()
                if not V.close(vb, va, rtol=1e-9, atol=1e-12):
                    return False, f"{who}: output entry {ia} of the reloaded circuit is {vb!r}, the saved circuit computes {va!r}"
    except Found as e:
        return False, f"{e.kind}: {e.detail}"
    except Exception as e:  # noqa
        tb = traceback.format_exc()
        return False, f"real code raised {type(e).__name__}: {e} at {circuit_check.repo_frame(tb)}"
    return True, "reloaded circuit computes the same outputs"


def run_case(desc, seed, tier):
    circuit, sem, via = desc["circuit"], desc["semiring"], desc.get("via", "operands")
    T.reset_interning()
    try:
        families.build(circuit)
    except _ops.REFUSALS as e:
        return {"status": "ok", "refused": 1, "obligations": 0, "discharged": 0, "hash": case_hash([circuit, sem]), "nontrivial": False, "sample": {"circuit": circuit, "refused": f"{type(e).__name__}: {e}"}}
    sc, senv, leaves, monotone = _setup(circuit, sem, seed, desc.get("monotone"))
    res = {"status": "ok", "obligations": 0, "discharged": 0, "syntactic": 0, "queries": 0, "solver_s": 0.0, "paths": 0, "violations": [], "inconclusive": [], "stubs": [], "ops_validated": 0, "transitions": 0}
    sess = Session(senv, 60000)
    desc_s = families.describe(circuit)
    nparams = len(senv.param_vars)
    sizes, ops = {}, set()
    flags = [(False, False), (True, True)] if tier == "quick" else circuit_check.FLAGS
    B = 2 if sc.scope else 1

    def violation(kind, fold, opt, detail, overrides=None):
        sig = f"{kind}|{desc_s}|{sem}|fold={fold},opt={opt}|via={via}"
        rp = {"kind": "reload", "circuit": circuit, "semiring": sem, "fold": fold, "optimize": opt, "via": via, "seed": seed, "monotone": monotone, "overrides": overrides or {}}
        res["violations"].append({"signature": sig, "detail": detail, "replay": rp, "hash": case_hash(rp)})
        res["status"] = "violation"

    def finish():
        circuit_check._finish(res, sess, senv, circuit, sem, nparams, sizes, ops)
        return res

    inputs = {}
    for fold, opt in flags:
        try:
            compA, compB, cdA, cdB, roots, rA, rB = _compile_pair(sc, sem, fold, opt)
            _write(compA, senv, leaves)
            for b in rB + [cdB]:
                _scramble(b)
            _audit(sc, compA, roots, rA, cdA, _keys(rB, cdB, sc))
            res["obligations"] += 1
            res["discharged"] += 1
            mods = [(sc, cdA, cdB, "circuit")] + ([(r, a, b, f"operand{i}") for i, (r, a, b) in enumerate(zip(roots, rA, rB))] if sc.operation is not None and via == "operands" else [])
            m = Shadow(senv.ctx)
            outs = []
            with m:
                for p in leaves:
                    if p in senv.leaf_names and compA.state.has_compiled_parameter(p):
                        tp, idx = compA.state.retrieve_compiled_parameter(p)
                        m.bind(tp._ptensor.data[idx], senv.penv.leaves[p])
                _transfer(via, rA, rB, cdA, cdB)
                res["transitions"] += 3
                for i, (c, a, b, who) in enumerate(mods):
                    if i not in inputs:
                        inputs[i] = make_inputs(senv, input_spec(c), B, prefix=f"x{i}_")
                    x, rows = inputs[i]
                    bind_inputs(m, x, rows)
                    oa = a(x) if c.scope else a()
                    ob = b(x) if c.scope else b()
                    aa, ab = m.get(oa), m.get(ob)
                    outs.append((who, oa, ob, aa if aa is not None else lift_concrete(oa), ab if ab is not None else lift_concrete(ob)))
        except Found as e:
            okc, msg = concrete_run(circuit, sem, fold, opt, via, seed, monotone, {})
            if okc:
                raise HarnessError(f"audit failure not reproduced: {e.kind}: {e.detail}")
            violation(e.kind, fold, opt, msg)
            return finish()
        except (Unsupported, TranslatorMismatch) as e:
            okc, msg = concrete_run(circuit, sem, fold, opt, via, seed, monotone, {})
            if okc:
                raise HarnessError(f"shadow engine failed and the concrete run agrees: {type(e).__name__}: {str(e)[:500]}")
            violation("value(concrete-fallback)", fold, opt, msg)
            return finish()
        except HarnessError:
            raise
        except Exception as e:  # noqa
            tb = traceback.format_exc()
            okc, msg = concrete_run(circuit, sem, fold, opt, via, seed, monotone, {})
            if okc:
                raise HarnessError(f"exception only under the shadow engine: {type(e).__name__}: {e}\n{tb[-1200:]}")
            violation(f"raises:{type(e).__name__}@{circuit_check.repo_frame(tb)}", fold, opt, msg)
            return finish()
        res["paths"] += 1
        res["ops_validated"] += m.n_validated
        ops.update(m.ops_shadowed)
        sess.sanity()
        for who, oa, ob, aa, ab in outs:
            if oa.shape != ob.shape:
                violation("shape", fold, opt, f"{who}: {tuple(oa.shape)} vs {tuple(ob.shape)}")
                return finish()
            fa, fb = aa.reshape(-1), ab.reshape(-1)
            for i in range(fa.size):
                goal = eq_goal(denote(fb[i], sem), denote(fa[i], sem))
                label = f"fold={fold},opt={opt}:{who}.reloaded[{i}]=saved[{i}]"
                sizes[label] = T.size([goal])
                r_ = sess.prove(goal, label)
                if r_ == "cex":
                    cex = sess.cex.pop()
                    ov = {s.data: v for s, v in cex["env"].items() if s.op == "var" and not s.data.startswith(("MAX#", "LOGABS", "ARG"))}
                    try:
                        holds_here = circuit_check._goal_holds_numerically(goal, senv.ctx.env)
                    except Exception:
                        holds_here = True
                    if not holds_here:
                        ov = {}
                    else:
                        ov.update(circuit_check.softmax_overrides(senv.ctx, cex["env"]))
                    okc, msg = concrete_run(circuit, sem, fold, opt, via, seed, monotone, ov)
                    if okc:
                        res["inconclusive"].append(label + " (solver model not reproduced on the real code)")
                        res["aborted"] = "interning reset by replay"
                        return finish()
                    violation("value", fold, opt, f"{label}: {msg}", ov)
                    return finish()
        senv.ctx.obligations.clear()
        senv.ctx.pc.clear()
    return finish()


def replay(rp):
    return concrete_run(rp["circuit"], rp["semiring"], rp["fold"], rp["optimize"], rp.get("via", "operands"), rp.get("seed", 0), rp.get("monotone"), rp.get("overrides", {}))

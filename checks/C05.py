"""C05 -- differentiate returns the partial derivatives in variable order."""
from __future__ import annotations

import random

from checks import _ops

PROPERTY = "C05"
LEVEL = "translation_validation"
CASE_TIMEOUT = {"quick": 420, "thorough": 600}
ENCODED = [
    "cirkit.symbolic.functional.differentiate",
    "cirkit.symbolic.operators.differentiate_polynomial_layer",
    "cirkit.utils.scope.Scope.__iter__ (order relied upon for labelling the differentials)",
    "cirkit.backend.torch.parameters.nodes.TorchPolynomialDifferential",
    "cirkit.backend.torch.layers.input.TorchPolynomialLayer",
] + _ops.COMMON_ENCODED
RULE = (
    "one case = (polynomial-input circuit with chosen variable ids / nesting, order k, semiring): differentiate(c,k) "
    "is compiled and executed symbolically (coefficients and real inputs are solver variables); the solver decides, "
    "per output POSITION, compiled == d^k refsem(c)/dx_v^k (exact symbolic derivative of the reference term) for v "
    "in increasing id order followed by c itself. distinct = (descriptor, semiring)."
)
BOUNDS = "order k <= 3, degree <= 3, <= 4 variables with ids from {0..40}, products of arity 2-3 listed in any order, K <= 2"
OUTSIDE = "non-polynomial differentiable inputs (none exist in the code), float rounding"
ASSUMPTIONS = _ops.COMMON_ASSUMPTIONS
EXPLANATION = "derivative identity per output position decided by z3 (polynomial identities)"


def _all(tier):
    H = lambda **k: dict({"kind": "hand"}, **k)
    bases = [
        H(name="nested", K=2, input="poly2", ids=[0, 1, 2]),
        H(name="nested", K=2, input="poly2", ids=[1, 8, 3]),
        H(name="nested", K=2, input="poly2", ids=[17, 2, 9], rev=True),
        H(name="nested", K=2, input="poly1", ids=[9, 16, 3]),
        H(name="nested", K=1, input="poly3", ids=[8, 1, 40], rev=True),
        H(name="had3", K=2, input="poly2", ids=[24, 8, 1]),
        H(name="kron3", K=2, input="poly1", ids=[3, 33, 12]),
        H(name="shared", K=2, input="poly2", ids=[16, 8]),
        H(name="single-input", K=2, input="poly3", sum=True, ids=[5]),
        H(name="nary-sum", K=2, arity=2, input="poly2", ids=[32, 1]),
        {"kind": "rg", "algo": "rbt", "nvars": 4, "sp": "cp", "input": "poly2", "weights": "raw", "K": 2},
        {"kind": "rg", "algo": "lt", "nvars": 3, "sp": "tucker", "input": "poly1", "weights": "raw", "K": 2},
    ]
    out = []
    for b in bases:
        for k in (1, 2, 3):
            out.append({"circuit": {"kind": "pipe", "base": b, "ops": [["differentiate", k]]}})
    out.append({"circuit": {"kind": "pipe", "base": bases[1], "ops": [["square"], ["differentiate", 1]]}})
    out.append({"circuit": {"kind": "pipe", "base": bases[3], "ops": [["square"], ["differentiate", 2]]}})
    return out


def cases(tier, seed):
    rnd = random.Random(seed)
    allc = _all(tier)
    sems = ["sum-product", "complex-lse-sum"]
    out = []
    def zero_derivative(c):
        # order > degree: the derivative is identically zero, whose logarithm (-inf, with an arbitrary
        # imaginary part) is outside what the shadow algebra validates in the complex-log semiring
        base = c["circuit"]["base"]
        deg = int(str(base.get("input", "poly0"))[4:])
        for op in c["circuit"]["ops"]:
            if op[0] == "square":
                deg *= 2
            if op[0] == "differentiate" and op[1] > deg:
                return True
        return False

    if tier == "quick":
        rnd.shuffle(allc)
        for i, c in enumerate(allc[:24]):
            d = dict(c)
            d["semiring"] = "sum-product" if zero_derivative(c) else sems[(i + seed) % 2]
            out.append(d)
    else:
        for c in allc:
            for s in sems:
                if s != "sum-product" and zero_derivative(c):
                    continue
                d = dict(c)
                d["semiring"] = s
                out.append(d)
        for i_, c in enumerate(_ops.random_pipes(1, 100, "differentiate")):
            d = dict(c)
            d["semiring"] = "sum-product" if (zero_derivative(c) or i_ % 2 == 0) else "complex-lse-sum"
            out.append(d)
    return out


def run_case(desc, seed, tier):
    return _ops.run_pipe_case(desc, seed, tier)


replay = _ops.replay

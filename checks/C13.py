"""C13 -- gradients of compiled circuits are correct and flag-independent."""
from __future__ import annotations

import random
import traceback

import numpy as np
import torch

from cirkit.backend.torch.compiler import TorchCompiler

from checks import _ops
from cvf import circuit_check, families, refsem
from cvf import terms as T
from cvf import vals as V
from cvf.harness import HarnessError, Session, SymEnv, bind_shadows, case_hash, eq_goal, input_spec, make_inputs, write_concrete
from cvf.shadow import Shadow, TranslatorMismatch, Unsupported
from cvf.vals import Val

PROPERTY = "C13"
LEVEL = "translation_validation"
CASE_TIMEOUT = {"quick": 300, "thorough": 600}
ENCODED = [
    "the autograd BACKWARD ATen stream of out[b,o,k].backward() through the compiled circuit: layers (cirkit.backend.torch.layers.inner/optimized/input), parameter nodes, address-book gathers (index -> index_put accumulate), TorchPointerParameter indexing",
    "cirkit.backend.torch.semiring.LSESumSemiring.apply_reduce (max shift: amax backward masks), SumProductSemiring",
    "cirkit.backend.torch.utils.SafeLog.backward / ComplexSafeLog.backward (nan_to_num(grad / conj(x)); complex views of real storage)",
    "cirkit.backend.torch.semiring.ComplexLSESumSemiring.apply_reduce",
    "cirkit.backend.torch.graph.folding.build_address_book_stacked_entry, cirkit.backend.torch.compiler (fold / optimize)",
]
RULE = (
    "one case = (circuit, semiring, flags, discrete input row).  The compiled circuit is evaluated and then "
    "out[0,o,k].backward() is executed UNDER the shadow engine: every ATen op autograd issues is executed "
    "symbolically, so the .grad of every compiled tensor is a term over the parameter symbols.  The gradient slice "
    "of each symbolic tensor parameter (looked up through the compiler registry, i.e. mapped back from folded "
    "tensors) and the gradient w.r.t. continuous inputs are compared by z3, entry by entry and for ALL parameter "
    "values, with the exact symbolic derivative of the reference semantics (d ref / d theta in the linear "
    "semiring, (d ref / d theta) / ref in the log semiring; chain rule through exp / sqrt atoms).  Because every "
    "flag pair is compared with the same derivative, gradients are flag-independent parameter by parameter.  "
    "Finiteness: the divisions the backward introduces are by sub-circuit values; in the log semiring with "
    "monotone parameters these are positive (obligations discharged as in C01).  distinct = (descriptor, semiring, "
    "flags); non-trivial = >= 2 symbolic parameters."
)
BOUNDS = "circuits with <= 4 variables, K <= 2; all three semirings (complex-lse-sum: Re(out), real parameters); categorical (logits / probs), embedding, Gaussian, polynomial inputs; raw / exp / sigmoid weight parameterisations; frozen (non-learnable) parameter mixes; all 4 flag pairs in thorough, 2 in quick; discrete inputs concrete (2 rows), continuous inputs symbolic"
OUTSIDE = "complex log-space semiring with Gaussian or polynomial inputs (gradient identities over opaque log-modulus / argument atoms are not decided within the budget; categorical / embedding inputs are covered); complex-valued circuit outputs (in the complex log-space semiring the real part of the output is differentiated and the circuits have real parameters, so the denoted value is real, possibly negative); softmax-parameterised weights (the simplex abstraction of C12 hides theta); second-order gradients; float rounding (nan_to_num is the identity on finite reals)"
ASSUMPTIONS = _ops.COMMON_ASSUMPTIONS + [
    "MAX#k (the max shift) is a free symbol: its total gradient contribution must cancel identically",
    "nan_to_num is the identity (finite reals)",
    "sum-product / complex-lse-sum: no intermediate circuit value that the backward pass divides by is exactly zero (a measure-zero set; there log-space autograd returns nan_to_num(0/0) = 0)",
]
EXPLANATION = "autograd's backward pass executed symbolically; gradient terms decided equal to the exact derivative of the reference semantics by z3 for all parameter values"


def _all(tier):
    out = []

    def add(d, sems=("sum-product", "lse-sum", "complex-lse-sum")):
        for s in sems:
            out.append({"circuit": d, "semiring": s})

    add({"kind": "hand", "name": "nested", "K": 2, "input": "cat-logits", "ids": [0, 1, 2]})
    add({"kind": "hand", "name": "nested", "K": 2, "input": "cat-probs", "ids": [0, 1, 2]})
    add({"kind": "hand", "name": "nested", "K": 2, "input": "embedding", "weights": "exp"})
    # complex log space with Gaussian / polynomial inputs: the gradient identities (products of opaque
    # log-modulus / argument atoms with exponent atoms) are not decided within 15 min per case: not run
    add({"kind": "hand", "name": "nested", "K": 2, "input": "gaussian"}, sems=("sum-product", "lse-sum"))
    add({"kind": "hand", "name": "nested", "K": 2, "input": "gaussian-lp"}, sems=("sum-product", "lse-sum"))
    add({"kind": "hand", "name": "nested", "K": 2, "input": "poly2"}, sems=("sum-product",))
    add({"kind": "hand", "name": "shared", "K": 2, "input": "cat-logits"})
    add({"kind": "hand", "name": "nary-sum", "K": 2, "input": "embedding", "arity": 2})
    add({"kind": "hand", "name": "kron3", "K": 2, "input": "embedding"})
    add({"kind": "hand", "name": "had3", "K": 2, "input": "embedding", "Ko": 2})
    add({"kind": "hand", "name": "sum-sum", "K": 2, "input": "embedding"})
    add({"kind": "hand", "name": "mixed-inputs", "K": 2})
    add({"kind": "hand", "name": "nested", "K": 2, "input": "embedding", "freeze": "odd"})
    add({"kind": "hand", "name": "nested", "K": 2, "input": "gaussian", "freeze": "odd"}, sems=("sum-product", "lse-sum"))
    for sp in ("cp", "cp-t", "tucker"):
        add({"kind": "rg", "algo": "rbt", "nvars": 3, "sp": sp, "input": "embedding", "weights": "raw", "K": 2})
        add({"kind": "rg", "algo": "qg", "shape": [1, 2, 2], "sp": sp, "input": "cat-logits", "weights": "exp", "K": 2})
    add({"kind": "rg", "algo": "lt", "nvars": 3, "rep": 2, "randomize": True, "sp": "cp", "input": "embedding", "weights": "raw", "K": 2, "mixing": "raw"})
    # derived circuits share tensors with their operand: gradients accumulate through the pointers
    add({"kind": "pipe", "base": {"kind": "hand", "name": "nested", "K": 2, "input": "embedding"}, "ops": [["square"]]}, sems=("sum-product", "complex-lse-sum"))
    add({"kind": "pipe", "base": {"kind": "hand", "name": "nested", "K": 2, "input": "cat-logits", "ids": [0, 1, 2]}, "ops": [["integrate", [1]]]})
    return out


def cases(tier, seed):
    rnd = random.Random(seed)
    allc = _all(tier)
    out = []
    flags = circuit_check.FLAGS
    if tier == "quick":
        allc = [c for c in allc if not _heavy(c)]
        core = [c for c in allc if c["circuit"].get("name") in ("nested", "shared", "nary-sum") and "freeze" not in c["circuit"]] + [c for c in allc if "freeze" in c["circuit"]]
        rest = [c for c in allc if c not in core]
        rnd.shuffle(rest)
        for i, c in enumerate(core + rest[:10]):
            for f, o in (flags[0], flags[3]) if i % 2 == 0 else (flags[1], flags[2]):
                d = dict(c)
                d.update(fold=f, optimize=o)
                out.append(d)
    else:
        for c in allc:
            for f, o in flags:
                d = dict(c)
                d.update(fold=f, optimize=o)
                out.append(d)
    return out


def _heavy(c):
    """members that need more than the quick budget (thorough tier only)"""
    d, sem = c["circuit"], c["semiring"]
    if d.get("algo") == "qg" and sem == "lse-sum":
        return True
    if (d.get("freeze") or d.get("kind") == "rg" or (d.get("kind") == "pipe" and d["ops"][0][0] == "square")) and sem == "complex-lse-sum":
        return True
    return False


# ---------------------------------------------------------------------------------------------
# exact derivatives of reference terms (chain rule through the atoms' definitions)
# ---------------------------------------------------------------------------------------------


class _LazyD(dict):
    def __init__(self, ctx, wrt):
        super().__init__()
        self.ctx = ctx
        self.wrt = wrt

    def __bool__(self):  # terms.diff does `dsym or {}`
        return True

    def get(self, a, default=None):
        if a in self:
            return self[a]
        d = self.ctx.atom_def.get(a)
        if d is None:
            return default
        kind = d[0]
        if kind == "exp":
            r = T.mul(a, T.diff(d[1], self.wrt, self))
        elif kind == "sqrt":
            r = T.div(T.diff(d[1], self.wrt, self), T.mul(T.const(2), a))
        elif kind == "pos":
            r = T.diff(d[1], self.wrt, self)
        elif kind == "const":
            r = T.ZERO
        elif kind == "softmax":
            raise Unsupported("derivative through the softmax simplex abstraction")
        else:
            r = T.ZERO  # max shifts / opaque symbols never occur in reference terms
        self[a] = r
        return r


def dval(ctx, v: Val, wrt: T.Term) -> Val:
    if v.kind != "lin":
        raise Unsupported("derivative of a non-linear-form value")
    ds = _LazyD(ctx, wrt)
    re = T.diff(v.full_re(), wrt, ds)
    im = T.diff(v.full_im(), wrt, ds) if v.im is not None else None
    return Val("lin", re, im)


# ---------------------------------------------------------------------------------------------


class DefEnv(dict):
    """valuation of the parameter / input variables; atoms are recomputed from their definitions (so that a
    perturbed variable propagates through exp / sqrt atoms)"""

    def __init__(self, ctx, base):
        super().__init__({k: v for k, v in base.items() if k.op == "var"})
        self.ctx = ctx
        self.base = base

    def __contains__(self, t):
        return dict.__contains__(self, t) or t in self.ctx.atom_def or t in self.base

    def __getitem__(self, t):
        if dict.__contains__(self, t):
            return dict.__getitem__(self, t)
        import math

        d = self.ctx.atom_def.get(t)
        if d is None or d[0] not in ("exp", "sqrt", "pos", "const"):
            v = self.base[t]
        elif d[0] == "exp":
            v = math.exp(T.evaluate1(d[1], self))
        elif d[0] == "sqrt":
            v = math.sqrt(T.evaluate1(d[1], self))
        elif d[0] == "pos":
            v = T.evaluate1(d[1], self)
        else:
            v = d[1]
        self[t] = v
        return v


def _setup(circuit, sem, seed, overrides=None):
    T.reset_interning()
    sc = families.build(circuit)
    senv = SymEnv(seed, overrides)
    circuit_check.SYMBOLIC_OBS[0] = False
    leaves = circuit_check.setup_leaves(sc, senv, sem == "lse-sum", False)
    return sc, senv, leaves


def _inputs(sc, senv, seed, row):
    """one input row: discrete variables concrete, continuous ones symbolic"""
    spec = input_spec(sc)
    if not spec:
        return None, {}, []
    D = max(spec) + 1
    any_real = any(s[0] == "real" for s in spec.values())
    x = torch.zeros((1, D), dtype=torch.float64 if any_real else torch.int64)
    rowv = {}
    real_vars = []
    rnd = random.Random(1000 * seed + row)
    for var, s in sorted(spec.items()):
        if s[0] == "int":
            k = rnd.randrange(s[1])
            x[0, var] = k
            rowv[var] = Val.const(k)
        else:
            v = senv.new_real_input(f"x{row}_{var}")
            rowv[var] = v
            x[0, var] = senv.ctx.env[v.re]
            real_vars.append(var)
    return x, rowv, real_vars


def concrete_run(circuit, sem, fold, opt, seed, overrides, row):
    """autograd on the real code with floats versus central finite differences of the reference semantics"""
    sc, senv, leaves = _setup(circuit, sem, seed, overrides)
    x, rowv, real_vars = _inputs(sc, senv, seed, row)
    comp = TorchCompiler(semiring=sem, fold=fold, optimize=opt)
    try:
        cc = comp.compile(sc)
        write_concrete(comp, senv, leaves)
        if x is not None and x.is_floating_point():
            x.requires_grad_(True)
        out = cc(x) if sc.scope else cc()
    except Exception as e:  # noqa
        tb = traceback.format_exc()
        return False, f"real code raised {type(e).__name__}: {e} at {circuit_check.repo_frame(tb)}"
    O, K = len(sc.outputs), sc.outputs[0].num_output_units
    out3 = out if sc.scope else out[None]
    env = senv.ctx.env

    def ref_value(o, k, env_):
        v = refsem.eval_circuit(sc, rowv, senv.penv)[o][k].concrete(env_)
        v = float(v.real if isinstance(v, complex) else v)
        return v if sem == "sum-product" else float(np.log(abs(v)))

    for o in range(O):
        for k in range(K):
            for t in [tp for tp in {id(comp.state.retrieve_compiled_parameter(p)[0]): comp.state.retrieve_compiled_parameter(p)[0] for p in leaves if p in senv.leaf_names}.values()]:
                if t._ptensor.grad is not None:
                    t._ptensor.grad = None
            if x is not None and x.grad is not None:
                x.grad = None
            f = out3[0, o, k]
            f = f.real if f.is_complex() else f
            if not f.requires_grad:
                continue
            try:
                f.backward(retain_graph=True)
            except Exception as e:  # noqa
                tb = traceback.format_exc()
                return False, f"backward raised {type(e).__name__}: {e} at {circuit_check.repo_frame(tb)}"
            for p in leaves:
                if p not in senv.leaf_names:
                    continue
                tp, idx = comp.state.retrieve_compiled_parameter(p)
                g = tp._ptensor.grad
                arr = senv.penv.leaves[p]
                if not p.learnable:
                    if tp._ptensor.requires_grad:
                        return False, f"non-learnable parameter {senv.leaf_names[p]} requires grad"
                    continue
                if g is None:
                    gs = np.zeros(p.shape)
                    if not tp._ptensor.requires_grad:
                        return False, f"learnable parameter {senv.leaf_names[p]} does not require grad (receives no gradient)"
                else:
                    gs = g[idx].detach().numpy()
                if not np.all(np.isfinite(gs)):
                    return False, f"gradient of {senv.leaf_names[p]} is not finite: {gs.ravel()[:4].tolist()}"
                for ix in np.ndindex(*p.shape):
                    var = arr[ix].re
                    if var.op != "var" or var not in env:
                        continue
                    h = 1e-6
                    e1, e2 = DefEnv(senv.ctx, env), DefEnv(senv.ctx, env)
                    e1[var] = env[var] + h
                    e2[var] = env[var] - h
                    fd = (ref_value(o, k, e1) - ref_value(o, k, e2)) / (2 * h)
                    got = float(gs[ix].real if np.iscomplexobj(gs) else gs[ix])
                    if abs(got - fd) > 1e-4 * max(1.0, abs(fd)):
                        return False, f"d out[{o},{k}] / d {var.data}: autograd gives {got!r}, finite differences of the reference give {fd!r}"
            for var_ in real_vars:
                xv = rowv[var_].re
                h = 1e-6
                e1, e2 = DefEnv(senv.ctx, env), DefEnv(senv.ctx, env)
                e1[xv] = env[xv] + h
                e2[xv] = env[xv] - h
                fd = (ref_value(o, k, e1) - ref_value(o, k, e2)) / (2 * h)
                got = float(x.grad[0, var_])
                if abs(got - fd) > 1e-4 * max(1.0, abs(fd)):
                    return False, f"d out[{o},{k}] / d x{var_}: autograd gives {got!r}, finite differences give {fd!r}"
    return True, "autograd gradients agree with finite differences of the reference semantics"


def run_case(desc, seed, tier):
    circuit, sem, fold, opt = desc["circuit"], desc["semiring"], desc["fold"], desc["optimize"]
    T.reset_interning()
    try:
        families.build(circuit)
    except _ops.REFUSALS as e:
        return {"status": "ok", "refused": 1, "obligations": 0, "discharged": 0, "hash": case_hash([circuit, sem, fold, opt]), "nontrivial": False, "sample": {"circuit": circuit, "refused": str(e)}}
    res = {"status": "ok", "obligations": 0, "discharged": 0, "syntactic": 0, "queries": 0, "solver_s": 0.0, "paths": 0, "violations": [], "inconclusive": [], "stubs": [], "ops_validated": 0}
    desc_s = families.describe(circuit)
    sc, senv, leaves = _setup(circuit, sem, seed)
    sess = Session(senv, 60000)
    nparams = len(senv.param_vars)
    sizes, ops = {}, set()

    def violation(kind, row, detail, overrides=None):
        rp = {"kind": "grad", "circuit": circuit, "semiring": sem, "fold": fold, "optimize": opt, "seed": seed, "row": row, "overrides": overrides or {}}
        res["violations"].append({"signature": f"{kind}|{desc_s}|{sem}|fold={fold},opt={opt}", "detail": detail, "replay": rp, "hash": case_hash(rp)})
        res["status"] = "violation"

    def finish():
        circuit_check._finish(res, sess, senv, circuit, sem, nparams, sizes, ops)
        res["hash"] = case_hash([circuit, sem, fold, opt])
        return res

    O, K = len(sc.outputs), sc.outputs[0].num_output_units
    nrows = 1 if (tier == "quick" or not sc.scope) else 2
    for row in range(nrows):
        x, rowv, real_vars = _inputs(sc, senv, seed, row)
        comp = TorchCompiler(semiring=sem, fold=fold, optimize=opt)
        grads = {}
        try:
            cc = comp.compile(sc)
            write_concrete(comp, senv, leaves)
            if x is not None and x.is_floating_point():
                x.requires_grad_(True)
            # structural part: requires_grad follows the symbolic 'learnable' flag
            for p in leaves:
                if p in senv.leaf_names:
                    tp, _ = comp.state.retrieve_compiled_parameter(p)
                    if bool(tp._ptensor.requires_grad) != bool(p.learnable):
                        okc, msg = concrete_run(circuit, sem, fold, opt, seed, {}, row)
                        violation("requires-grad", row, msg if not okc else f"parameter {senv.leaf_names[p]}: learnable={p.learnable}, requires_grad={tp._ptensor.requires_grad}")
                        return finish()
            m = Shadow(senv.ctx)
            with m:
                bind_shadows(m, comp, senv, leaves)
                if x is not None:
                    for var_ in real_vars:
                        m.bind(x[0, var_], np.asarray(rowv[var_], dtype=object).reshape(()))
                out = cc(x) if sc.scope else cc()
                out3 = out if sc.scope else out[None]
                tps = {}
                for p in leaves:
                    if p in senv.leaf_names:
                        tp, idx = comp.state.retrieve_compiled_parameter(p)
                        tps[id(tp)] = tp
                for o in range(O):
                    for k in range(K):
                        for tp in tps.values():
                            tp._ptensor.grad = None
                        if x is not None and x.grad is not None:
                            x.grad = None
                        f = out3[0, o, k]
                        f = f.real if f.is_complex() else f
                        if not f.requires_grad:
                            continue
                        f.backward(retain_graph=True)
                        for p in leaves:
                            if p not in senv.leaf_names or not p.learnable:
                                continue
                            tp, idx = comp.state.retrieve_compiled_parameter(p)
                            g = tp._ptensor.grad
                            if g is None:
                                grads[(o, k, p)] = None
                            else:
                                ga = m.arr(g)
                                grads[(o, k, p)] = ga[idx].copy()
                        for var_ in real_vars:
                            grads[(o, k, "x", var_)] = m.arr(x.grad)[0, var_]
        except (Unsupported, TranslatorMismatch) as e:
            okc, msg = concrete_run(circuit, sem, fold, opt, seed, {}, row)
            if okc:
                raise HarnessError(f"shadow engine failed and the concrete gradient check agrees: {type(e).__name__}: {str(e)[:600]}")
            violation("gradient(concrete-fallback)", row, msg)
            return finish()
        except HarnessError:
            raise
        except Exception as e:  # noqa
            tb = traceback.format_exc()
            okc, msg = concrete_run(circuit, sem, fold, opt, seed, {}, row)
            if okc:
                raise HarnessError(f"exception only under the shadow engine: {type(e).__name__}: {e}\n{tb[-1500:]}")
            violation(f"raises:{type(e).__name__}@{circuit_check.repo_frame(tb)}", row, msg)
            return finish()
        res["paths"] += 1
        res["ops_validated"] += m.n_validated
        ops.update(m.ops_shadowed)
        ref = refsem.eval_circuit(sc, rowv, senv.penv)
        sess.sanity()
        todo = []
        for key, g in grads.items():
            o, k = key[0], key[1]
            rv = ref[o][k]
            if rv.kind != "lin" or rv.im is not None:
                continue
            if key[2] == "x":
                wrts = [((), rowv[key[3]].re, f"x{key[3]}")]
                garr = {(): g}
            else:
                p = key[2]
                arr = senv.penv.leaves[p]
                wrts = [(ix, arr[ix].re, arr[ix].re.data if arr[ix].re.op == "var" else None) for ix in np.ndindex(*p.shape)]
                garr = g
            for ix, var, name in wrts:
                if var.op != "var":
                    continue  # entry defined from the others (normalised probabilities): not an independent coordinate
                try:
                    d = dval(senv.ctx, rv, var)
                except Unsupported as e:
                    raise HarnessError(str(e))
                want = d if sem == "sum-product" else d / rv
                got = Val.const(0.0) if garr is None else garr[ix]
                todo.append((f"row{row}:d out[{o},{k}]/d {name}", got, want))
        seen_den = senv.ctx.__dict__.setdefault("_c13_den", set())
        for label0, got, want in todo:
            goal = eq_goal(got, want)
            if sem != "lse-sum":
                # the backward of log divides by intermediate circuit values: non-degeneracy assumption
                for t in T.postorder([goal]):
                    base = t.args[1] if t.op == "div" else (t.args[0] if t.op == "pow" and t.data < 0 else None)
                    if base is not None and base.op != "const" and base.id not in seen_den:
                        seen_den.add(base.id)
                        senv.ctx.assumptions.append(T.not_(T.eq(base, T.ZERO)))
            label = f"fold={fold},opt={opt}:{label0}"
            sizes[label] = T.size([goal])
            r = sess.prove(goal, label)
            if r == "cex":
                cex = sess.cex.pop()
                ov = {s.data: v for s, v in cex["env"].items() if s.op == "var" and not s.data.startswith(("MAX#", "LOGABS", "ARG"))}
                try:
                    holds_here = circuit_check._goal_holds_numerically(goal, senv.ctx.env)
                except Exception:
                    holds_here = True
                if not holds_here:
                    ov = {}
                okc, msg = concrete_run(circuit, sem, fold, opt, seed, ov, row)
                if okc:
                    res["inconclusive"].append(label + " (solver model not reproduced on the real code)")
                    res["aborted"] = "interning reset by replay"
                    return finish()
                violation("gradient", row, f"{label}: {msg}", ov)
                return finish()
        viol = []
        circuit_check.check_obligations(sess, senv, f"fold={fold},opt={opt},row={row}", viol, circuit)
        for v in viol:
            okc, msg = concrete_run(circuit, sem, fold, opt, seed, v["env"], row)
            if not okc:
                violation("definedness:" + v["why"], row, msg, v["env"])
            else:
                res["inconclusive"].append(f"definedness obligation '{v['why']}' has a solver model that is not reproduced")
            return finish()
        senv.ctx.pc.clear()
    return finish()


def replay(rp):
    return concrete_run(rp["circuit"], rp["semiring"], rp["fold"], rp["optimize"], rp.get("seed", 0), rp.get("overrides", {}), rp.get("row", 0))

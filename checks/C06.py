"""C06 -- evidence and concatenate implement conditioning and output stacking."""
from __future__ import annotations

import itertools
import random

from checks import _ops

PROPERTY = "C06"
LEVEL = "translation_validation"
CASE_TIMEOUT = {"quick": 420, "thorough": 600}
ENCODED = [
    "cirkit.symbolic.functional.evidence/concatenate",
    "cirkit.symbolic.layers.EvidenceLayer",
    "cirkit.backend.torch.layers.input.TorchEvidenceLayer.forward",
    "cirkit.backend.torch.rules.layers.compile_evidence_layer",
    "cirkit.backend.torch.compiler._fold_layers_group (sub-module folding)",
    "cirkit.backend.torch.graph.folding.group_foldable_modules (fold settings of sub-modules)",
] + _ops.COMMON_ENCODED
RULE = (
    "one case = (circuit, observed variable set with values, semiring[, symbolic observation]): evidence(c, obs) is "
    "compiled and executed symbolically; the solver decides for all parameter values and remaining-variable "
    "assignments compiled(y) == refsem(c)(y, obs) (the observed variables substituted in the operand's reference "
    "semantics); with 'symbolic_obs' the observation values themselves are solver variables over the variable's "
    "domain. concatenate: output block i == operand i evaluated alone, in the given order (incl. nested "
    "concatenations of operands of different depth). distinct = (descriptor, semiring)."
)
BOUNDS = "<= 4 variables, all observed subsets for the 3-variable members, K <= 2, concatenations of <= 3 operands, nesting <= 2"
OUTSIDE = "multivariate input layers with partial evidence (refused by the code), float rounding"
ASSUMPTIONS = _ops.COMMON_ASSUMPTIONS
EXPLANATION = "conditioning / stacking equations per output entry decided by z3"


def _all(tier):
    H = lambda **k: dict({"kind": "hand"}, **k)
    cat = H(name="nested", K=2, input="cat-logits", ids=[0, 1, 2])
    catp = H(name="nested", K=2, input="cat-softmax", ids=[1, 8, 3])
    emb = H(name="had3", K=2, input="embedding", Ko=2, ids=[0, 1, 2])
    mixed = H(name="mixed-inputs", K=2)
    mixed2 = H(name="mixed-inputs", K=2, inputs=["cat-logits", "embedding", "cat2-probs"])
    gau = H(name="nested", K=2, input="gaussian", ids=[0, 1, 2])
    pol = H(name="nested", K=2, input="poly2", ids=[0, 1, 2])
    shared = H(name="shared", K=2, input="cat-logits")
    rbt = {"kind": "rg", "algo": "rbt", "nvars": 4, "sp": "cp", "input": "cat-softmax", "weights": "softmax", "K": 2}
    qg = {"kind": "rg", "algo": "qg", "shape": [1, 2, 2], "sp": "cp-t", "input": "embedding", "weights": "raw", "K": 2}
    deep = H(name="nested", K=2, input="embedding", ids=[0, 1, 2], Ko=2)
    shallow = H(name="single-input", K=2, input="embedding", ids=[1])
    mid = H(name="shared", K=2, input="embedding", ids=[0, 2])
    out = []

    def pipe(base, *ops, **kw):
        d = {"circuit": {"kind": "pipe", "base": base, "ops": [list(o) for o in ops]}}
        d.update(kw)
        out.append(d)

    for base, ids in ((cat, [0, 1, 2]), (emb, [0, 1, 2]), (mixed, [0, 1, 2])):
        for r in (1, 2, 3):
            for z in itertools.combinations(ids, r):
                obs = {str(v): (v + i) % 3 for i, v in enumerate(z)}
                pipe(base, ("evidence", obs))
                pipe(base, ("evidence", obs), symbolic_obs=True)
    pipe(catp, ("evidence", {"8": 2}))
    pipe(catp, ("evidence", {"3": 0, "1": 1}), symbolic_obs=True)
    pipe(mixed2, ("evidence", {"0": 2, "2": 1}))
    pipe(mixed2, ("evidence", {"0": 1, "1": 2, "2": 0}), symbolic_obs=True)
    pipe(gau, ("evidence", {"1": 0.25}))
    pipe(gau, ("evidence", {"0": -0.5, "2": 1.5}), symbolic_obs=True)
    pipe(pol, ("evidence", {"1": 0.5}))
    pipe(pol, ("evidence", {"0": 2.0, "2": -1.0}), symbolic_obs=True)
    pipe(shared, ("evidence", {"1": 1}))
    pipe(rbt, ("evidence", {"0": 1, "3": 2}))
    pipe(qg, ("evidence", {"1": 0, "2": 2}), symbolic_obs=True)
    # evidence followed by other operators
    pipe(cat, ("evidence", {"1": 2}), ("integrate", [0]))
    pipe(cat, ("evidence", {"0": 1}), ("square",))
    pipe(emb, ("evidence", {"2": 1}), ("evidence", {"0": 2}))
    pipe(cat, ("evidence", {"0": 0, "1": 1, "2": 2}))
    # observations GIVEN in non-increasing order of the variable ids (ordered pairs, different values)
    pipe(cat, ("evidence", [[2, 0], [0, 1]]), ordered=True)
    pipe(cat, ("evidence", [[2, 2], [1, 0], [0, 1]]), ordered=True)
    pipe(gau, ("evidence", [[2, 1.5], [0, -0.5]]), ordered=True)
    pipe(rbt, ("evidence", [[3, 2], [1, 0], [0, 1]]), ("integrate", [2]), ordered=True)
    # concatenate
    pipe(cat, ("concatenate", 2))
    pipe(shared, ("concatenate", 3))
    pipe(deep, ("concat", [shallow]))
    pipe(shallow, ("concat", [deep]))
    pipe(deep, ("concat", [shallow, mid]))
    pipe(deep, ("concat", [shallow]), ("concat", [mid]))
    pipe(shallow, ("concat", [deep]), ("concat", [mid], "last"))
    pipe(mid, ("concat", [{"kind": "pipe", "base": deep, "ops": [["concat", [shallow]]]}], "last"))
    pipe(deep, ("evidence", {"1": 1}), ("concat", [shallow]))
    return out


def cases(tier, seed):
    rnd = random.Random(seed)
    allc = _all(tier)
    out = []

    def sems_for(c):
        return ["sum-product", "complex-lse-sum"] if "poly" in str(c) else ["sum-product", "lse-sum", "complex-lse-sum"]

    if tier == "quick":
        cc_ = [c for c in allc if "concat" in str(c["circuit"]["ops"]) or c.get("ordered")]
        rest = [c for c in allc if c not in cc_]
        rnd.shuffle(rest)
        for i, c in enumerate(cc_ + rest[:30]):
            ss = sems_for(c)
            d = dict(c)
            d["semiring"] = ss[(i + seed) % len(ss)]
            out.append(d)
    else:
        for c in allc:
            for s in sems_for(c):
                d = dict(c)
                d["semiring"] = s
                out.append(d)
        for i_, c in enumerate(_ops.random_pipes(1, 150, "evidence")):
            d = dict(c)
            ss_ = ["sum-product", "lse-sum", "complex-lse-sum"]
            d["semiring"] = ss_[i_ % len(ss_)]
            if d.pop("no_complex", False) and d["semiring"] == "complex-lse-sum":
                d["semiring"] = "sum-product"
            out.append(d)
    return out


def run_case(desc, seed, tier):
    return _ops.run_pipe_case(desc, seed, tier)


replay = _ops.replay

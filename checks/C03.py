"""C03 -- integrate returns exactly the marginal / partition function."""
from __future__ import annotations

import itertools
import random

from checks import _ops

PROPERTY = "C03"
LEVEL = "translation_validation"
CASE_TIMEOUT = {"quick": 420, "thorough": 600}
ENCODED = [
    "cirkit.symbolic.functional.integrate",
    "cirkit.symbolic.operators.integrate_embedding_layer/integrate_categorical_layer/integrate_gaussian_layer",
    "cirkit.backend.torch.layers.input.TorchConstantValueLayer.forward",
    "cirkit.backend.torch.parameters.nodes.TorchReduceSumParameter/TorchReduceLSEParameter",
] + _ops.COMMON_ENCODED
RULE = (
    "one case = (circuit, integration scope(s) Z, semiring): integrate(c,Z) (or integrate(integrate(c,Z1),Z2)) is "
    "compiled and executed symbolically; for every remaining-variable assignment y (symbolic) and all parameter "
    "values the solver decides  compiled(y) == sum_z refsem(c)(y,z)  (explicit finite sum over dom(Z); layerwise "
    "closed form for Gaussians). distinct = (descriptor, semiring); non-trivial = >=2 symbolic parameters."
)
BOUNDS = "<= 4 variables, |dom(Z)| <= 81, K <= 2, all non-empty Z for the 3-variable members, nested integration"
OUTSIDE = "numerical quadrature (not used by the code), multivariate input layers (refused by the code), float rounding"
ASSUMPTIONS = _ops.COMMON_ASSUMPTIONS + [
    "raw 'probs' parameters are probabilities: in (0,1) and summing to one over the categories (the documented meaning of probs)"
]
EXPLANATION = "the operator's defining equation is decided by z3 for all parameter values and remaining-variable assignments"


def _bases():
    return {
        "cat3": {"kind": "hand", "name": "nested", "K": 2, "input": "cat-logits", "ids": [0, 1, 2]},
        "cat3p": {"kind": "hand", "name": "nested", "K": 2, "input": "cat-probs", "ids": [0, 1, 2]},
        "cat3s": {"kind": "hand", "name": "nested", "K": 2, "input": "cat-softmax", "ids": [2, 5, 3]},
        "emb3": {"kind": "hand", "name": "had3", "K": 2, "input": "embedding", "Ko": 2},
        "mixed": {"kind": "hand", "name": "mixed-inputs", "K": 2},
        "mixed2": {"kind": "hand", "name": "mixed-inputs", "K": 2, "inputs": ["cat-logits", "embedding", "cat-probs"]},
        "shared": {"kind": "hand", "name": "shared", "K": 2, "input": "cat-logits"},
        "gauss": {"kind": "hand", "name": "nested", "K": 2, "input": "gaussian"},
        "gausslp": {"kind": "hand", "name": "nested", "K": 2, "input": "gaussian-lp"},
        "rbt4": {"kind": "rg", "algo": "rbt", "nvars": 4, "sp": "cp", "input": "cat-logits", "weights": "raw", "K": 2},
        "qg": {"kind": "rg", "algo": "qg", "shape": [1, 2, 2], "sp": "cp-t", "input": "embedding", "weights": "raw", "K": 2},
        "tucker": {"kind": "rg", "algo": "lt", "nvars": 3, "sp": "tucker", "input": "cat-softmax", "weights": "softmax", "K": 2},
        "kron3": {"kind": "hand", "name": "kron3", "K": 2, "input": "embedding"},
    }


def _all(tier):
    B = _bases()
    out = []

    def pipe(base, *ops, normalized=False):
        out.append({"circuit": {"kind": "pipe", "base": B[base], "ops": [list(o) for o in ops]}, "normalized": normalized})

    # all non-empty subsets for 3-variable members
    for base, ids in (("cat3", [0, 1, 2]), ("emb3", [0, 1, 2]), ("mixed", [0, 1, 2]), ("cat3s", [2, 5, 3])):
        for r in (1, 2, 3):
            for z in itertools.combinations(ids, r):
                pipe(base, ("integrate", list(z)))
    pipe("cat3", ("integrate", None))
    pipe("cat3p", ("integrate", [0]), normalized=True)
    pipe("cat3p", ("integrate", [1, 2]), normalized=True)
    pipe("cat3p", ("integrate", None), normalized=True)
    pipe("mixed2", ("integrate", [0, 1]), normalized=True)
    pipe("mixed2", ("integrate", [1, 2]), normalized=True)
    pipe("shared", ("integrate", [0]))
    pipe("shared", ("integrate", None))
    pipe("gauss", ("integrate", [0]))
    pipe("gauss", ("integrate", [1, 2]))
    pipe("gausslp", ("integrate", [1]))
    pipe("gausslp", ("integrate", None))
    pipe("rbt4", ("integrate", [0, 3]))
    pipe("rbt4", ("integrate", None))
    pipe("qg", ("integrate", [1, 2]))
    pipe("tucker", ("integrate", [0, 2]))
    pipe("kron3", ("integrate", [1]))
    # nested integration == integration of the union
    pipe("cat3", ("integrate", [0]), ("integrate", [2]))
    pipe("mixed", ("integrate", [0]), ("integrate", [1]))
    pipe("mixed", ("integrate", [1]), ("integrate", [0, 2]))
    pipe("emb3", ("integrate", [2]), ("integrate", [0]), ("integrate", [1]))
    pipe("gausslp", ("integrate", [0]), ("integrate", [2]))
    # integrals of products (unnormalised inputs produced by multiply)
    pipe("cat3", ("square",), ("integrate", None))
    pipe("cat3", ("square",), ("integrate", [1]))
    pipe("emb3", ("square",), ("integrate", [0, 2]))
    pipe("gauss", ("square",), ("integrate", [0]))
    pipe("gauss", ("square",), ("integrate", None))
    pipe("cat3", ("evidence", {"1": 2}), ("integrate", [0]))
    # integrals of products of two DIFFERENT circuits (the fused reduce-sum / outer-product rewrite is
    # symmetric for squares)
    pipe("emb3", ("multiply_other",), ("integrate", None))
    pipe("emb3", ("multiply_other",), ("integrate", [0, 2]))
    pipe("kron3", ("multiply_other",), ("integrate", [1]))
    pipe("qg", ("multiply_other",), ("integrate", None))
    pipe("cat3", ("multiply_other",), ("integrate", None))
    return out


def cases(tier, seed):
    rnd = random.Random(seed)
    allc = _all(tier)
    sems = ["sum-product", "lse-sum", "complex-lse-sum"]
    out = []
    if tier == "quick":
        core = [c for c in allc if c["circuit"]["ops"][0][0] == "multiply_other"]
        allc = [c for c in allc if c not in core]
        rnd.shuffle(allc)
        for i, c in enumerate(core + allc[:26]):
            d = dict(c)
            d["semiring"] = sems[(i + seed) % 3]
            out.append(d)
    else:
        for c in allc:
            for s in sems:
                d = dict(c)
                d["semiring"] = s
                out.append(d)
        for i_, c in enumerate(_ops.random_pipes(1, 150, "integrate")):
            d = dict(c)
            ss_ = ["sum-product", "lse-sum", "complex-lse-sum"]
            d["semiring"] = ss_[i_ % len(ss_)]
            if d.pop("no_complex", False) and d["semiring"] == "complex-lse-sum":
                d["semiring"] = "sum-product"
            out.append(d)
    return out


def run_case(desc, seed, tier):
    return _ops.run_pipe_case(desc, seed, tier)


replay = _ops.replay

"""C04 -- multiply returns the pointwise product or refuses."""
from __future__ import annotations

import random

from checks import _ops

PROPERTY = "C04"
LEVEL = "translation_validation"
CASE_TIMEOUT = {"quick": 420, "thorough": 600}
ENCODED = [
    "cirkit.symbolic.functional.multiply",
    "cirkit.symbolic.operators.multiply_embedding_layers/multiply_categorical_layers/multiply_gaussian_layers/"
    "multiply_polynomial_layers/multiply_hadamard_layers/multiply_kronecker_layers/multiply_sum_layers",
    "cirkit.backend.torch.parameters.nodes.TorchKroneckerParameter/TorchOuterProductParameter/TorchOuterSumParameter/"
    "TorchGaussianProductMean/TorchGaussianProductStddev/TorchGaussianProductLogPartition/TorchPolynomialProduct",
] + _ops.COMMON_ENCODED
RULE = (
    "one case = (operand circuit(s), product chain, semiring): multiply is applied symbolically (real code), the result "
    "compiled and executed under the shadow engine; for all parameter values and inputs the solver decides "
    "compiled(x)[(i,j),(k1,k2)] == c1_i(x)[k1] * c2_j(x)[k2] with units in Kronecker order; a refusal "
    "(StructuralPropertyError/NotImplementedError) is allowed and tallied. distinct = (descriptor, semiring)."
)
BOUNDS = "operands <= 4 variables, K <= 2 per operand, sum arity <= 3, Kronecker arity <= 3, product chains <= 3, polynomial degree <= 2"
OUTSIDE = "float rounding; polynomial degrees > 2; operands over different scopes (refused by the code)"
ASSUMPTIONS = _ops.COMMON_ASSUMPTIONS
EXPLANATION = "pointwise-product equation decided by z3 per output entry; Gaussian products via solver-proved atom-merging lemmas; FFT products in exact cyclotomic arithmetic"


def _all(tier):
    H = lambda **k: dict({"kind": "hand"}, **k)
    R = lambda **k: dict({"kind": "rg"}, **k)
    bases = [
        H(name="nested", K=2, input="cat-logits", ids=[0, 1, 2]),
        H(name="nested", K=2, input="cat-probs", ids=[0, 1, 2]),
        H(name="nested", K=2, input="cat-softmax", ids=[1, 8, 3]),
        H(name="nested", K=2, input="embedding", ids=[0, 1, 2], rev=True),
        H(name="nested", K=2, input="gaussian", ids=[0, 1, 2]),
        H(name="nested", K=2, input="gaussian-lp", ids=[0, 1, 2]),
        H(name="nested", K=2, input="poly1", ids=[0, 1, 2]),
        H(name="nested", K=2, input="poly2", ids=[0, 1, 2]),
        H(name="shared", K=2, input="embedding"),
        H(name="shared", K=2, input="cat-logits"),
        H(name="kron3", K=2, input="embedding"),
        H(name="kron3", K=2, input="cat-logits", Ko=2),
        H(name="had3", K=2, input="embedding", Ko=2),
        H(name="nary-sum", K=2, arity=2, input="embedding"),
        H(name="nary-sum", K=2, arity=3, input="cat-logits", Ko=2),
        H(name="nary-sum", K=2, arity=2, input="cat-softmax", mixing="softmax"),
        H(name="single-input", K=2, input="cat-logits", sum=True, Ko=2),
        H(name="single-input", K=2, input="gaussian", sum=True),
        H(name="mixed-inputs", K=2),
        R(algo="rbt", nvars=4, sp="cp", input="cat-logits", weights="raw", K=2),
        R(algo="lt", nvars=3, sp="tucker", input="embedding", weights="raw", K=2),
        R(algo="qt", shape=[1, 2, 2], sp="cp-t", input="cat-softmax", weights="softmax", K=2),
        R(algo="ff", nvars=3, sp="cp", input="embedding", weights="raw", K=2),
        R(algo="qg", shape=[1, 2, 2], sp="cp", input="embedding", weights="raw", K=2),
        R(algo="rbt", nvars=4, rep=2, sp="cp", input="embedding", weights="raw", K=2),
    ]
    out = []
    for b in bases:
        out.append({"circuit": {"kind": "pipe", "base": b, "ops": [["square"]]}})
        out.append({"circuit": {"kind": "pipe", "base": b, "ops": [["multiply_other"]]}})
    # chains, evidence-conditioned operands, products of integrals
    b0, b3 = bases[0], bases[3]
    out.append({"circuit": {"kind": "pipe", "base": b3, "ops": [["square"], ["multiply_other"]]}})
    out.append({"circuit": {"kind": "pipe", "base": b0, "ops": [["multiply_other"], ["square"]]}})
    out.append({"circuit": {"kind": "pipe", "base": b0, "ops": [["evidence", {"1": 2}], ["square"]]}})
    out.append({"circuit": {"kind": "pipe", "base": b3, "ops": [["evidence", {"0": 1}], ["multiply_other", {"kind": "pipe", "base": b3, "ops": [["evidence", {"0": 2}]]}]]}})
    out.append({"circuit": {"kind": "pipe", "base": b3, "ops": [["integrate", [2]], ["square"]]}})
    out.append({"circuit": {"kind": "pipe", "base": bases[4], "ops": [["square"], ["square"]]}})
    out.append({"circuit": {"kind": "pipe", "base": bases[6], "ops": [["square"], ["multiply_other"]]}})
    out.append({"circuit": {"kind": "pipe", "base": b3, "ops": [["multiply_conj"]]}})
    # operands whose paired sum layers have DIFFERENT arities (1 x 2, 2 x 1, 2 x 3), in both orders
    n1 = H(name="nary-sum", K=2, arity=1, input="cat-logits")
    n2 = H(name="nary-sum", K=2, arity=2, input="cat-logits")
    n3 = H(name="nary-sum", K=2, arity=3, input="embedding2")
    e1 = H(name="nary-sum", K=2, arity=1, input="embedding2")
    e2 = H(name="nary-sum", K=2, arity=2, input="embedding2")
    for a_, b_ in ((n1, n2), (n2, n1), (e1, n3), (n3, e2), (e2, n3)):
        out.append({"circuit": {"kind": "pipe", "base": a_, "ops": [["multiply_other", b_]]}, "hetero": True})
    return out


def cases(tier, seed):
    rnd = random.Random(seed)
    allc = _all(tier)
    out = []

    def sems_for(c):
        return ["sum-product", "complex-lse-sum"] if "poly" in str(c) else ["sum-product", "lse-sum", "complex-lse-sum"]

    if tier == "quick":
        # members whose product needs > 5 min of solver time run in the thorough tier only
        allc = [c for c in allc if not _heavy(c)]
        core = [c for c in allc if c.get("hetero")]
        allc = [c for c in allc if not c.get("hetero")]
        rnd.shuffle(allc)
        for i, c in enumerate(core + allc[:30]):
            ss = sems_for(c)
            d = dict(c)
            d["semiring"] = ss[(i + seed) % len(ss)]
            out.append(d)
    else:
        for c in allc:
            for s in sems_for(c):
                d = dict(c)
                d["semiring"] = s
                out.append(d)
        for i_, c in enumerate(_ops.random_pipes(1, 100, "multiply")):
            d = dict(c)
            ss_ = ["sum-product", "lse-sum", "complex-lse-sum"]
            d["semiring"] = ss_[i_ % len(ss_)]
            if d.pop("no_complex", False) and d["semiring"] == "complex-lse-sum":
                d["semiring"] = "sum-product"
            out.append(d)
    return out


def _heavy(c):
    b = c["circuit"]["base"]
    ops = c["circuit"]["ops"]
    if b.get("algo") == "qt" and b.get("input") == "cat-softmax" and ops[0][0] in ("multiply_other", "square"):
        return True  # product of two softmax-normalised quad trees: 420 s case timeout in the quick budget
    if b.get("input") == "gaussian" and [o[0] for o in ops] == ["square", "square"]:
        return True  # fourth power of a Gaussian mixture: the exponent lemmas do not close it (inconclusive)
    return False


def run_case(desc, seed, tier):
    return _ops.run_pipe_case(desc, seed, tier)


replay = _ops.replay

"""C10 -- derived circuits share parameters with their operands at all times."""
from __future__ import annotations

import json
import random
import traceback

import numpy as np
import torch

from cirkit.backend.torch.compiler import TorchCompiler
from cirkit.backend.torch.parameters.nodes import TorchTensorParameter
from cirkit.symbolic import parameters as SP
from cirkit.symbolic.circuit import pipeline_topological_ordering

from checks import _ops
from cvf import circuit_check, families
from cvf import terms as T
from cvf import vals as V
from cvf.harness import (
    HarnessError,
    Session,
    SymEnv,
    bind_inputs,
    case_hash,
    denote,
    eq_goal,
    input_spec,
    make_inputs,
    own_leaves,
)
from cvf.shadow import Shadow, TranslatorMismatch, Unsupported, lift_concrete

PROPERTY = "C10"
LEVEL = "translation_validation"
CASE_TIMEOUT = {"quick": 600, "thorough": 1800}
ENCODED = [
    "cirkit.symbolic.layers.Layer.copyref / cirkit.symbolic.parameters.Parameter.ref / ReferenceParameter",
    "cirkit.backend.torch.rules.parameters.compile_reference_parameter, compile_tensor_parameter",
    "cirkit.backend.torch.parameters.nodes.TorchPointerParameter.forward, TorchTensorParameter.forward/reset_parameters",
    "cirkit.backend.torch.compiler.TorchCompiler.compile_pipeline/_compile_circuit/_fold_parameter_nodes_group, TorchCompilerState.register_compiled_parameter",
    "cirkit.backend.torch.graph.folding.build_address_book_stacked_entry",
] + _ops.COMMON_ENCODED
RULE = (
    "one case = (operator pipeline, semiring, flags, compilation order, update history).  The operand circuits and the "
    "derived circuit are compiled in ONE compiler context (operands first / derived first); the locations (tensor "
    "node, fold index) of the operands' symbolic parameters are snapshotted right after the OPERANDS are compiled.  "
    "(A) structural audit, repeated after every history step: every learnable tensor reachable from the derived "
    "compiled circuit IS (object identity) a snapshotted operand tensor, the derived symbolic circuit owns no tensor "
    "parameter of its own, and the registry still maps every operand parameter to its snapshotted location.  "
    "(B) a concrete history (reset_parameters on operand and derived circuit, an SGD step through the derived "
    "circuit, load_state_dict of perturbed values into the operand) runs on the real modules.  (C) one inductive "
    "step: solver variables are written ONLY into the snapshotted operand locations (= the state after an arbitrary "
    "history of in-place updates), operands and derived circuit are executed symbolically under one shadow memory, "
    "and z3 decides operand == its reference semantics and derived == operator definition applied to the operand's "
    "semantics, for all values.  A derived tensor that does not alias the operand stays concrete and the "
    "equality fails.  distinct = (descriptor, semiring); non-trivial = >= 2 symbolic parameters."
)
BOUNDS = "pipelines of <= 3 operators over circuits with <= 4 variables, K <= 2; histories of 4 update steps; both compilation orders; 4 flag pairs (3 in quick)"
OUTSIDE = "updates that replace tensors instead of writing in place (e.g. assigning a new nn.Parameter by hand), several compiler contexts, float rounding"
ASSUMPTIONS = _ops.COMMON_ASSUMPTIONS + [
    "parameter updates (optimizer steps, reset_parameters, load_state_dict) write in place into the tensors of the compiled operand; the state after any such history is an arbitrary valuation of those tensors",
]
EXPLANATION = "aliasing audited on the real modules across a real update history; defining relation decided by z3 for all values written through the operand's tensors only"

HISTORY = ["reset-operand", "sgd-derived", "load-operand", "reset-derived"]


def _bases():
    return {
        "cat3": {"kind": "hand", "name": "nested", "K": 2, "input": "cat-logits", "ids": [0, 1, 2]},
        "cat3s": {"kind": "hand", "name": "nested", "K": 2, "input": "cat-softmax", "ids": [2, 5, 3]},
        "emb3": {"kind": "hand", "name": "had3", "K": 2, "input": "embedding", "Ko": 2},
        "mixed": {"kind": "hand", "name": "mixed-inputs", "K": 2},
        "shared": {"kind": "hand", "name": "shared", "K": 2, "input": "cat-logits"},
        "gauss": {"kind": "hand", "name": "nested", "K": 2, "input": "gaussian"},
        "gausslp": {"kind": "hand", "name": "nested", "K": 2, "input": "gaussian-lp"},
        "gauss1": {"kind": "hand", "name": "single-input", "K": 2, "input": "gaussian-lp"},
        "rbt4": {"kind": "rg", "algo": "rbt", "nvars": 4, "sp": "cp", "input": "cat-logits", "weights": "raw", "K": 2},
        "qg": {"kind": "rg", "algo": "qg", "shape": [1, 2, 2], "sp": "cp-t", "input": "embedding", "weights": "raw", "K": 2},
        "tucker": {"kind": "rg", "algo": "lt", "nvars": 3, "sp": "tucker", "input": "cat-softmax", "weights": "softmax", "K": 2},
        "poly": {"kind": "hand", "name": "nested", "K": 2, "input": "poly2"},
        "poly1": {"kind": "hand", "name": "kron3", "K": 1, "input": "poly2"},
        "nary": {"kind": "hand", "name": "nary-sum", "K": 2, "input": "embedding"},
        "clamp": {"kind": "hand", "name": "nested", "K": 2, "input": "embedding", "weights": "clamp01"},
    }


def _all(tier):
    B = _bases()
    out = []

    def pipe(base, *ops, **kw):
        d = {"circuit": {"kind": "pipe", "base": B[base], "ops": [list(o) for o in ops]}}
        d.update(kw)
        out.append(d)

    for b in ("cat3", "cat3s", "emb3", "mixed", "shared", "gauss", "gausslp", "gauss1", "rbt4", "qg", "tucker"):
        pipe(b, ("integrate", None))
    pipe("cat3", ("integrate", [1]))
    pipe("gausslp", ("integrate", [0, 2]))
    pipe("mixed", ("integrate", [0]), ("integrate", [1]))
    for b in ("cat3", "emb3", "gauss", "gausslp", "qg", "nary", "shared"):
        pipe(b, ("square",))
        pipe(b, ("square",), ("integrate", None))
    for b in ("cat3", "emb3", "gausslp", "nary"):
        pipe(b, ("multiply_other",))
        pipe(b, ("multiply_conj",), ("integrate", None))
    for b in ("cat3", "gausslp", "emb3", "tucker"):
        pipe(b, ("conjugate",))
        pipe(b, ("conjugate",), ("conjugate",))
    pipe("poly", ("differentiate", 1))
    pipe("poly1", ("differentiate", 2))
    pipe("poly", ("square",), ("differentiate", 1))
    pipe("cat3", ("evidence", {"1": 2}))
    pipe("gausslp", ("evidence", {"0": 0.25}), ("integrate", None))
    pipe("mixed", ("evidence", {"0": 1}), ("square",))
    pipe("cat3", ("concatenate",))
    pipe("emb3", ("concatenate",), ("integrate", [0]))
    pipe("cat3", ("square",), ("integrate", None), ("conjugate",))
    pipe("poly", ("square",))
    pipe("poly", ("conjugate",))
    # parameter graphs with operator nodes whose configuration has falsy values (clamp at 0)
    pipe("clamp", ("integrate", None), clampcore=True)
    pipe("clamp", ("square",), clampcore=True)
    pipe("clamp", ("conjugate",), clampcore=True)
    return out


def _is_core(d):
    """one pipeline per (operator, input family) layer rule: always in the quick slice"""
    ops = d["circuit"]["ops"]
    base = d["circuit"]["base"]
    if len(ops) != 1 or base.get("kind") != "hand":
        return False
    key = (ops[0][0], base.get("input", "mixed"), base["name"])
    return key in {
        ("integrate", "cat-logits", "nested"), ("integrate", "embedding", "had3"), ("integrate", "gaussian-lp", "single-input"), ("integrate", "gaussian-lp", "nested"),
        ("square", "cat-logits", "nested"), ("square", "embedding", "had3"), ("square", "gaussian-lp", "nested"), ("square", "poly2", "nested"), ("square", "embedding", "nary-sum"),
        ("conjugate", "cat-logits", "nested"), ("conjugate", "embedding", "had3"), ("conjugate", "gaussian-lp", "nested"), ("conjugate", "poly2", "nested"),
        ("differentiate", "poly2", "nested"), ("evidence", "cat-logits", "nested"), ("concatenate", "cat-logits", "nested"),
    } and (ops[0][0] != "integrate" or ops[0][1] is None or base["name"] == "nested") or bool(d.get("clampcore"))


def cases(tier, seed):
    rnd = random.Random(seed)
    allc = _all(tier)
    sems = ["sum-product", "lse-sum", "complex-lse-sum"]
    out = []
    if tier == "quick":
        core = [c for c in allc if _is_core(c)]
        rest = [c for c in allc if not _is_core(c)]
        rnd.shuffle(rest)
        for i, c in enumerate(core + rest[:8]):
            d = dict(c)
            d["semiring"] = sems[(i + seed) % 3]
            out.append(d)
        out = [_fix(d) for d in out]
    else:
        for c in allc:
            for s in sems:
                d = dict(c)
                d["semiring"] = s
                if _fix(d) is d:
                    out.append(d)
        # the operator pipelines of C03-C07 (one semiring each), minus the members marked heavy there
        from checks import C03, C04, C05, C06, C07

        seen = {json.dumps(c["circuit"], sort_keys=True) for c in allc}
        extra = []
        for mod in (C03, C04, C05, C06, C07):
            for c in mod._all(tier):
                if c.get("symbolic_obs") or (hasattr(mod, "_heavy") and mod._heavy(c)):
                    continue
                k = json.dumps(c["circuit"], sort_keys=True)
                if c["circuit"].get("kind") == "pipe" and k not in seen:
                    seen.add(k)
                    extra.append((c, mod is C05))
        for i, (c, deriv) in enumerate(extra):
            d = dict(c)
            # derivatives can be identically zero (log 0 in the log-space semirings): linear semiring only
            d["semiring"] = "sum-product" if deriv else sems[(i + seed) % 3]
            out.append(_fix(d))
    return out


def _fix(d):
    # a clamp at 0 produces exact zeros: log 0 in both log-space semirings -> linear semiring only
    if d["circuit"]["base"].get("weights") == "clamp01" and d["semiring"] != "sum-product":
        d = dict(d)
        d["semiring"] = "sum-product"
        return d
    # derivatives take negative values: not representable in the real log-space semiring
    if d["semiring"] == "lse-sum" and (any(o[0] == "differentiate" for o in d["circuit"]["ops"]) or str(d["circuit"]["base"].get("input", "")).startswith("poly") or d["circuit"]["base"].get("weights") == "clamp01"):
        d = dict(d)
        d["semiring"] = "complex-lse-sum"
    return d


# ---------------------------------------------------------------------------------------------


class Found(Exception):
    def __init__(self, kind, detail):
        super().__init__(detail)
        self.kind = kind
        self.detail = detail


def _roots(sc):
    return [c for c in pipeline_topological_ordering([sc]) if c.operation is None]


def _compile(sc, semiring, fold, opt, order):
    comp = TorchCompiler(semiring=semiring, fold=fold, optimize=opt)
    roots = _roots(sc)
    snap = {}

    def take():
        for r in roots:
            for p in own_leaves(r):
                if isinstance(p, SP.ConstantParameter) or p in snap:
                    continue
                if not comp.state.has_compiled_parameter(p):
                    raise Found("param-unregistered", f"operand parameter of shape {p.shape} has no compiled tensor")
                snap[p] = comp.state.retrieve_compiled_parameter(p)

    if order == "operands-first":
        ccs = [comp.compile(r) for r in roots]
        take()
        cd = comp.compile(sc)
    else:
        cd = comp.compile(sc)
        ccs = [comp.get_compiled_circuit(r) for r in roots]
        take()
    return comp, roots, ccs, cd, snap


def _audit(sc, comp, cd, snap, when):
    roots = _roots(sc)
    # derived symbolic circuits own no tensor parameter
    rootp = set()
    for r in roots:
        rootp.update(p for p in own_leaves(r))
    for c in pipeline_topological_ordering([sc]):
        if c.operation is None:
            continue
        for p in own_leaves(c):
            if isinstance(p, SP.ConstantParameter):
                continue
            if p not in rootp or p.learnable:
                if p in rootp:
                    raise Found("derived-owns-operand-tensor", f"{when}: a circuit produced by '{c.operation.operator.name}' holds the operand's TensorParameter {p.shape} itself instead of a reference")
                if p.learnable:
                    raise Found("derived-new-learnable", f"{when}: a circuit produced by '{c.operation.operator.name}' introduces a new learnable TensorParameter of shape {p.shape}")
    shared = {id(tp._ptensor): tp for tp, _ in snap.values()}
    for name, q in cd.named_parameters():
        if not q.requires_grad:
            continue
        if id(q) not in shared:
            raise Found("derived-tensor-not-shared", f"{when}: learnable tensor '{name}' {tuple(q.shape)} of the derived compiled circuit is not a tensor of its operands")
    for p, (tp, idx) in snap.items():
        tp2, idx2 = comp.state.retrieve_compiled_parameter(p)
        if tp2 is not tp or idx2 != idx:
            raise Found("registry-moved", f"{when}: operand parameter {p.shape} was registered at fold {idx} of a tensor {tuple(tp._ptensor.shape)} and is now at fold {idx2} of {'the same' if tp2 is tp else 'another'} tensor")


def _history(steps, roots_cc, cd, x, semiring, prep=None):
    for h in steps:
        if h == "sgd-derived" and prep is not None:
            prep()  # in-place write of in-domain values (stddev > 0, ...) so that the forward pass is defined
        if h == "reset-operand":
            for cc in roots_cc:
                cc.reset_parameters()
        elif h == "reset-derived":
            cd.reset_parameters()
        elif h == "load-operand":
            for cc in roots_cc:
                sd = {k: (v.clone() * 0.5 + 0.125 if v.is_floating_point() or v.is_complex() else v.clone()) for k, v in cc.state_dict().items()}
                cc.load_state_dict(sd)
        elif h == "sgd-derived":
            ps = [q for q in cd.parameters() if q.requires_grad]
            if not ps:
                continue
            opt_ = torch.optim.SGD(ps, lr=1e-3)
            opt_.zero_grad()
            out = cd(x) if x is not None else cd()
            loss = out.real.sum() if out.is_complex() else out.sum()
            if loss.requires_grad:
                loss.backward()
                for q in ps:
                    if q.grad is not None:
                        q.grad.nan_to_num_(0.0, 0.0, 0.0)
                opt_.step()


def _write(senv, snap):
    for p, (tp, idx) in snap.items():
        if p not in senv.leaf_names:
            continue
        sl = tp._ptensor.data[idx]
        with torch.no_grad():
            sl.copy_(torch.as_tensor(senv.concrete_leaf(p), dtype=sl.dtype))


def _setup(circuit, semiring, seed, monotone, normalized, overrides=None):
    T.reset_interning()
    sc = families.build(circuit)
    senv = SymEnv(seed, overrides)
    if monotone is None:
        monotone = semiring == "lse-sum"
    circuit_check.SYMBOLIC_OBS[0] = False
    leaves = circuit_check.setup_leaves(sc, senv, monotone, normalized)
    return sc, senv, leaves, monotone


def _numeric_compare(out, sc, ref, rows, senv, semiring, who):
    O, K = len(sc.outputs), sc.outputs[0].num_output_units
    B = len(rows)
    want = (B, O, K) if sc.scope else (O, K)
    if tuple(out.shape) != want:
        return f"{who}: shape {tuple(out.shape)} != expected {want}"
    lin = circuit_check.to_linear(out, semiring)
    if not sc.scope:
        lin = lin[None]
    for b in range(len(ref)):
        for o, vec in enumerate(ref[b]):
            for k, rv in enumerate(vec):
                want_v = rv.concrete(senv.ctx.env)
                got = lin[b, o, k].item()
                if not V.close(complex(got) if isinstance(got, complex) else got, want_v, rtol=1e-6, atol=1e-9):
                    return f"{who}: value mismatch at row {b} output {o} unit {k}: compiled={got!r} required={want_v!r}"
    return None


def concrete_run(circuit, semiring, fold, opt, order, history, seed, monotone, normalized, overrides):
    """the whole scenario on the real code with plain floats. returns (ok, msg)."""
    sc, senv, leaves, monotone = _setup(circuit, semiring, seed, monotone, normalized, overrides)
    B = 2 if sc.scope else 1
    x, rows = make_inputs(senv, input_spec(sc), B, prefix="x_")
    try:
        comp, roots, ccs, cd, snap = _compile(sc, semiring, fold, opt, order)
        _audit(sc, comp, cd, snap, "after compilation")
        for i, h in enumerate(history):
            _history([h], ccs, cd, x, semiring, lambda: _write(senv, snap))
            _audit(sc, comp, cd, snap, f"after history {history[: i + 1]}")
        _write(senv, snap)
        out = cd(x) if sc.scope else cd()
        ref = circuit_check.reference("pipe", circuit, sc, senv, rows)
        msg = _numeric_compare(out, sc, ref, rows, senv, semiring, "derived circuit vs. operator definition on the updated operand")
        if msg:
            return False, msg
        for i, (r, cc) in enumerate(zip(roots, ccs)):
            xr, rrows = make_inputs(senv, input_spec(r), B, prefix=f"r{i}_")
            outr = cc(xr)
            refr = [circuit_check.refsem.eval_circuit(r, row, senv.penv) for row in rrows]
            msg = _numeric_compare(outr, r, refr, rrows, senv, semiring, f"operand {i} vs. its reference semantics")
            if msg:
                return False, msg
    except Found as e:
        return False, f"{e.kind}: {e.detail}"
    except Exception as e:  # noqa
        tb = traceback.format_exc()
        return False, f"real code raised {type(e).__name__}: {e} at {circuit_check.repo_frame(tb)}"
    return True, "derived circuit shares every tensor with its operands and satisfies its defining relation after the history"


def run_case(desc, seed, tier):
    circuit, sem = desc["circuit"], desc["semiring"]
    T.reset_interning()
    try:
        families.build(circuit)
    except _ops.REFUSALS as e:
        return {"status": "ok", "refused": 1, "obligations": 0, "discharged": 0, "hash": case_hash([circuit, sem]), "nontrivial": False, "sample": {"circuit": circuit, "refused": f"{type(e).__name__}: {e}"}}
    normalized = desc.get("normalized", False)
    sc, senv, leaves, monotone = _setup(circuit, sem, seed, desc.get("monotone"), normalized)
    res = {"status": "ok", "obligations": 0, "discharged": 0, "syntactic": 0, "queries": 0, "solver_s": 0.0, "paths": 0, "violations": [], "inconclusive": [], "stubs": [], "ops_validated": 0, "transitions": 0}
    sess = Session(senv, 60000)
    desc_s = families.describe(circuit)
    nparams = len(senv.param_vars)
    sizes, ops = {}, set()
    if tier == "quick":
        plan = [(False, False, "operands-first"), (True, True, "operands-first"), (True, False, "derived-first")]
    else:
        plan = [(f, o, od) for f, o in circuit_check.FLAGS for od in ("operands-first", "derived-first")]
    B = 2 if sc.scope else 1
    x, rows = make_inputs(senv, input_spec(sc), B, prefix="x_")
    ref = None
    roots0 = _roots(sc)
    rin = [make_inputs(senv, input_spec(r), B, prefix=f"r{i}_") for i, r in enumerate(roots0)]
    rref = [None] * len(roots0)

    def violation(kind, fold, opt, order, hist, detail, overrides=None):
        sig = f"{kind}|{desc_s}|{sem}|fold={fold},opt={opt}|{order}"
        rp = {"kind": "share", "circuit": circuit, "semiring": sem, "fold": fold, "optimize": opt, "order": order, "history": hist, "seed": seed, "monotone": monotone, "normalized": normalized, "overrides": overrides or {}}
        res["violations"].append({"signature": sig, "detail": detail, "replay": rp, "hash": case_hash(rp)})
        res["status"] = "violation"

    def finish():
        circuit_check._finish(res, sess, senv, circuit, sem, nparams, sizes, ops)
        return res

    for fold, opt, order in plan:
        hist_done = []
        try:
            comp, roots, ccs, cd, snap = _compile(sc, sem, fold, opt, order)
            _audit(sc, comp, cd, snap, "after compilation")
            res["obligations"] += 1
            res["discharged"] += 1
            _write(senv, snap)
            for h in HISTORY:
                _history([h], ccs, cd, x, sem, lambda: _write(senv, snap))
                hist_done.append(h)
                _audit(sc, comp, cd, snap, f"after history {hist_done}")
                res["transitions"] += 1
                res["obligations"] += 1
                res["discharged"] += 1
        except Found as e:
            okc, msg = concrete_run(circuit, sem, fold, opt, order, hist_done, seed, monotone, normalized, {})
            if okc:
                raise HarnessError(f"audit failure not reproduced: {e.kind}: {e.detail}")
            violation(e.kind, fold, opt, order, hist_done, msg)
            return finish()
        except HarnessError:
            raise
        except Exception as e:  # noqa  (real code raised during compile / history)
            tb = traceback.format_exc()
            okc, msg = concrete_run(circuit, sem, fold, opt, order, hist_done + HISTORY[len(hist_done) : len(hist_done) + 1], seed, monotone, normalized, {})
            if okc:
                raise HarnessError(f"exception not reproduced: {type(e).__name__}: {e}\n{tb[-1200:]}")
            violation(f"raises:{type(e).__name__}@{circuit_check.repo_frame(tb)}", fold, opt, order, hist_done, msg)
            return finish()
        # inductive step: arbitrary values in the operand tensors
        _write(senv, snap)
        m = Shadow(senv.ctx)
        try:
            with m:
                for p, (tp, idx) in snap.items():
                    if p in senv.leaf_names:
                        m.bind(tp._ptensor.data[idx], senv.penv.leaves[p])
                bind_inputs(m, x, rows)
                out = cd(x) if sc.scope else cd()
                arr = m.get(out)
                if arr is None:
                    arr = lift_concrete(out)
                rarrs = []
                for (xr, rrows), cc in zip(rin, ccs):
                    bind_inputs(m, xr, rrows)
                    o_ = cc(xr)
                    a_ = m.get(o_)
                    rarrs.append((o_, a_ if a_ is not None else lift_concrete(o_)))
        except (Unsupported, TranslatorMismatch) as e:
            okc, msg = concrete_run(circuit, sem, fold, opt, order, HISTORY, seed, monotone, normalized, {})
            if okc:
                raise HarnessError(f"shadow engine failed and the concrete run agrees: {type(e).__name__}: {str(e)[:500]}")
            violation("value(concrete-fallback)", fold, opt, order, HISTORY, msg)
            return finish()
        except Exception as e:  # noqa
            tb = traceback.format_exc()
            okc, msg = concrete_run(circuit, sem, fold, opt, order, HISTORY, seed, monotone, normalized, {})
            if okc:
                raise HarnessError(f"exception only under the shadow engine: {type(e).__name__}: {e}\n{tb[-1200:]}")
            violation(f"raises:{type(e).__name__}@{circuit_check.repo_frame(tb)}", fold, opt, order, HISTORY, msg)
            return finish()
        res["paths"] += 1
        res["ops_validated"] += m.n_validated
        ops.update(m.ops_shadowed)
        if ref is None:
            ref = circuit_check.reference("pipe", circuit, sc, senv, rows)
        todo = []
        O, K = len(sc.outputs), sc.outputs[0].num_output_units
        want = (B, O, K) if sc.scope else (O, K)
        if tuple(out.shape) != want or len(ref[0]) != O:
            okc, msg = concrete_run(circuit, sem, fold, opt, order, HISTORY, seed, monotone, normalized, {})
            violation("shape", fold, opt, order, HISTORY, f"output shape {tuple(out.shape)} != {want}; replay: {msg}")
            return finish()
        if not sc.scope:
            arr = arr[None]
        for b in range(B):
            for o in range(O):
                for k in range(K):
                    todo.append((f"derived[{b},{o},{k}]=Op(operand)", denote(arr[b, o, k], sem), ref[b][o][k]))
        for i, (r, (o_, a_)) in enumerate(zip(roots, rarrs)):
            if rref[i] is None:
                rref[i] = [circuit_check.refsem.eval_circuit(r, row, senv.penv) for row in rin[i][1]]
            for b in range(B):
                for o in range(len(r.outputs)):
                    for k in range(r.outputs[0].num_output_units):
                        todo.append((f"operand{i}[{b},{o},{k}]=ref", denote(a_[b, o, k], sem), rref[i][b][o][k]))
        sess.sanity()
        for lab, impl, rv in todo:
            goal = eq_goal(impl, rv)
            label = f"fold={fold},opt={opt},{order}:{lab}"
            sizes[label] = T.size([goal])
            r_ = sess.prove(goal, label)
            if r_ == "cex":
                cex = sess.cex.pop()
                ov = {s.data: v for s, v in cex["env"].items() if s.op == "var" and not s.data.startswith(("MAX#", "LOGABS", "ARG"))}
                try:
                    holds_here = circuit_check._goal_holds_numerically(goal, senv.ctx.env)
                except Exception:
                    holds_here = True
                if not holds_here:
                    ov = {}
                else:
                    ov.update(circuit_check.softmax_overrides(senv.ctx, cex["env"]))
                okc, msg = concrete_run(circuit, sem, fold, opt, order, HISTORY, seed, monotone, normalized, ov)
                if okc:
                    res["inconclusive"].append(label + " (solver model not reproduced on the real code)")
                    res["aborted"] = "interning reset by replay"
                    return finish()
                violation("value", fold, opt, order, HISTORY, f"{label}: {msg}", ov)
                return finish()
        viol = []
        circuit_check.check_obligations(sess, senv, f"fold={fold},opt={opt},{order}", viol, circuit)
        for v in viol:
            okc, msg = concrete_run(circuit, sem, fold, opt, order, HISTORY, seed, monotone, normalized, v["env"])
            if not okc:
                violation("definedness:" + v["why"], fold, opt, order, HISTORY, msg, v["env"])
            else:
                res["inconclusive"].append(f"definedness obligation '{v['why']}' has a solver model that is not reproduced")
            return finish()
        senv.ctx.pc.clear()
    return finish()


def replay(rp):
    return concrete_run(rp["circuit"], rp["semiring"], rp["fold"], rp["optimize"], rp["order"], rp.get("history", HISTORY), rp.get("seed", 0), rp.get("monotone"), rp.get("normalized", False), rp.get("overrides", {}))

"""C01 -- compiled circuit computes the function its symbolic circuit denotes."""
from __future__ import annotations

import random

from cvf import circuit_check, families

PROPERTY = "C01"
LEVEL = "translation_validation"
CASE_TIMEOUT = {"quick": 420, "thorough": 1500}
ENCODED = [
    "cirkit.backend.torch.compiler.TorchCompiler._compile_circuit/_post_process_circuit/_fold_circuit/_optimize_circuit",
    "cirkit.backend.torch.rules.layers.*",
    "cirkit.backend.torch.rules.parameters.*",
    "cirkit.backend.torch.circuits.LayerAddressBook.lookup/from_index_info",
    "cirkit.backend.torch.circuits.TorchCircuit.forward/_evaluate_layers",
    "cirkit.backend.torch.graph.modules.TorchDiAcyclicGraph.evaluate",
    "cirkit.backend.torch.layers.inner.*.forward",
    "cirkit.backend.torch.layers.input.*.forward",
    "cirkit.backend.torch.layers.optimized.*.forward",
    "cirkit.backend.torch.parameters.parameter.TorchParameter.forward / ParameterAddressBook.lookup",
    "cirkit.backend.torch.parameters.nodes.*.forward",
    "cirkit.backend.torch.semiring.SemiringImpl.einsum/apply_reduce/map_from (all three semirings)",
]
RULE = (
    "one case = (family member, semiring); each case traces the compiled circuit under the shadow engine for "
    "4 (fold,optimize) pairs x batch sizes {1,2,(3),F} with ALL tensor-parameter entries and ALL input entries "
    "symbolic, and asks the solver for every output entry whether compiled == reference semantics. "
    "distinct = distinct (circuit descriptor, semiring); non-trivial = at least 2 symbolic parameter entries."
)
BOUNDS = (
    "circuits: region graphs {rbt,lt,ff,qt,qg,pd} with <=6 variables x {cp,cp-t,tucker,explicit} x K<=3 x "
    "hand skeletons (shared sub-circuits, multi-output, output feeding a layer, n-ary sums, mixing, kron/hadamard "
    "arity 3, non-contiguous variable ids); inputs categorical(probs|softmax|logits)/embedding/gaussian/polynomial; "
    "batch <= 4; reals, not floats; solver timeout 60 s per query"
)
OUTSIDE = "float rounding/overflow, devices, larger circuits, binomial inputs (torch.distributions lgamma path)"
ASSUMPTIONS = [
    "floats are mathematical reals (no rounding, overflow, NaN propagation)",
    "lse-sum: monotone parameters (raw weights/embeddings > 0); probabilities in (0,1); stddev > 0",
    "E[theta]=exp(theta) and MAX#k (stabilising maxima) are free positive/real symbols: unsat is sound, sat is replayed",
    "clamp to finfo range is the identity",
]
EXPLANATION = "bounded symbolic equivalence of each compiled program with the reference semantics, decided by z3"


def _hand(tier):
    out = []
    inputs = ["cat-softmax", "cat-logits", "embedding"] if tier == "quick" else ["cat-softmax", "cat-probs", "cat-logits", "embedding", "cat2-probs"]
    for inp in inputs:
        out += [
            {"kind": "hand", "name": "shared", "K": 2, "input": inp},
            {"kind": "hand", "name": "out-feeds", "K": 2, "input": inp},
            {"kind": "hand", "name": "nested", "K": 2, "input": inp, "ids": [1, 8, 3]},
        ]
    out += [
        {"kind": "hand", "name": "out-feeds", "K": 2, "input": "cat-logits", "swap": True},
        {"kind": "hand", "name": "prod-out", "K": 2, "input": "embedding"},
        {"kind": "hand", "name": "prod-out", "K": 2, "input": "embedding", "kron": True},
        {"kind": "hand", "name": "sum-sum", "K": 2, "input": "cat-logits"},
        {"kind": "hand", "name": "sum-sum", "K": 2, "input": "embedding", "both": True},
        {"kind": "hand", "name": "nary-sum", "K": 2, "arity": 2, "input": "cat-logits"},
        {"kind": "hand", "name": "nary-sum", "K": 2, "arity": 3, "input": "embedding", "Ko": 2},
        {"kind": "hand", "name": "nary-sum", "K": 2, "arity": 2, "input": "cat-softmax", "mixing": "softmax"},
        {"kind": "hand", "name": "nary-sum", "K": 2, "arity": 3, "input": "cat-softmax", "mixing": "raw"},
        {"kind": "hand", "name": "kron3", "K": 2, "input": "embedding"},
        # order-sensitive layers listing their inputs against the creation (= folding) order
        {"kind": "hand", "name": "kron3", "K": 2, "input": "embedding", "revins": True},
        {"kind": "hand", "name": "prod-out", "K": 2, "input": "embedding", "kron": True, "revins": True},
        {"kind": "hand", "name": "nary-sum", "K": 2, "arity": 2, "input": "cat-logits", "revins": True},
        {"kind": "hand", "name": "nary-sum", "K": 2, "arity": 3, "input": "embedding", "Ko": 2, "revins": True},
        {"kind": "hand", "name": "interleaved", "K": 2},
        {"kind": "hand", "name": "interleaved", "K": 2, "inputs": ["cat-logits", "embedding", "cat-logits"]},
        {"kind": "hand", "name": "had3", "K": 3, "input": "cat-logits", "Ko": 2},
        {"kind": "hand", "name": "nested", "K": 2, "input": "embedding", "ids": [9, 16, 3], "rev": True},
        {"kind": "hand", "name": "single-input", "K": 2, "input": "cat-probs"},
        {"kind": "hand", "name": "single-input", "K": 3, "input": "embedding", "sum": True, "Ko": 2},
        {"kind": "hand", "name": "two-inputs-out", "K": 2, "input": "cat-logits", "ids": [2, 0]},
        {"kind": "hand", "name": "mixed-inputs", "K": 2},
        {"kind": "hand", "name": "hetero-params", "K": 2, "input": "embedding"},
        {"kind": "hand", "name": "nested", "K": 2, "input": "poly1", "ids": [0, 1, 2]},
        {"kind": "hand", "name": "nested", "K": 2, "input": "poly2", "ids": [1, 8, 3]},
        {"kind": "hand", "name": "shared", "K": 2, "input": "gaussian"},
        {"kind": "hand", "name": "nested", "K": 2, "input": "gaussian-lp"},
    ]
    return out


def _rg(tier):
    out = []
    algos = [
        {"algo": "rbt", "nvars": 4},
        {"algo": "rbt", "nvars": 5, "rep": 2, "rgseed": 1},
        {"algo": "lt", "nvars": 3},
        {"algo": "lt", "nvars": 4, "rep": 2, "randomize": True},
        {"algo": "ff", "nvars": 3},
        {"algo": "ff", "nvars": 4, "rep": 2},
        {"algo": "qt", "shape": [1, 2, 2]},
        {"algo": "qg", "shape": [1, 2, 2]},
        {"algo": "qg", "shape": [1, 2, 3]},
        {"algo": "pd", "shape": [1, 2, 2], "delta": 1},
    ]
    sps = ["cp", "cp-t", "tucker"]
    inputs = ["cat-softmax", "cat-logits", "embedding"]
    weights = ["raw", "softmax"]
    for a in algos:
        for sp in sps:
            for inp in inputs:
                for w in weights:
                    d = {"kind": "rg", "sp": sp, "input": inp, "weights": w, "K": 2}
                    d.update(a)
                    out.append(d)
                    if a.get("rep", 1) > 1 or a["algo"] in ("qg", "pd"):
                        d2 = dict(d)
                        d2["mixing"] = w
                        out.append(d2)
    # explicit sum/product factories
    for a in algos[:6]:
        for prod in ("hadamard", "kronecker"):
            d = {"kind": "rg", "explicit": prod, "input": "embedding", "weights": "raw", "K": 2}
            d.update(a)
            out.append(d)
    # larger unit counts / classes
    out.append({"kind": "rg", "algo": "rbt", "nvars": 4, "sp": "tucker", "input": "cat-logits", "weights": "raw", "K": 3})
    out.append({"kind": "rg", "algo": "qt", "shape": [1, 2, 2], "sp": "cp", "input": "cat-softmax", "weights": "softmax", "K": 2, "classes": 2})
    out.append({"kind": "rg", "algo": "lt", "nvars": 3, "sp": "cp-t", "input": "embedding", "weights": "raw", "K": 3, "classes": 3})
    return out


def cases(tier, seed):
    rnd = random.Random(seed)
    hand = _hand(tier)
    rg = _rg(tier)
    sems = ["sum-product", "lse-sum", "complex-lse-sum"]
    out = []
    if tier == "quick":
        picks = hand[:]
        rnd.shuffle(rg)
        picks += rg[:14]
        for i, c in enumerate(picks):
            poly = str(c.get("input", "")).startswith("poly")
            ss = ["sum-product", "complex-lse-sum"] if poly else sems
            out.append({"circuit": c, "semiring": ss[(i + seed) % len(ss)]})
    else:
        for c in hand + rg:
            poly = str(c.get("input", "")).startswith("poly")
            for s in (["sum-product", "complex-lse-sum"] if poly else sems):
                out.append({"circuit": c, "semiring": s})
        # random region-graph circuits from a FIXED generator seed (the thorough set is deterministic and was run end-to-end)
        for i, c in enumerate(families.random_members(1, 240)):
            out.append({"circuit": c, "semiring": sems[i % 3]})
    return out


def run_case(desc, seed, tier):
    batches = (2, 1) if tier == "quick" else (2, 1, 3)
    return circuit_check.eval_case(desc["circuit"], desc["semiring"], seed, batches=batches)


def replay(rp):
    ok, msg, _ = circuit_check.concrete_eval(
        rp["circuit"], rp["semiring"], rp["fold"], rp["optimize"], rp["B"], rp.get("overrides", {}), rp.get("seed", 0), rp.get("monotone", False), None, rp.get("normalized", False), rp.get("oracle")
    )
    return ok, msg

"""C18 -- compiler registry and pipeline context stay coherent over any call history."""
from __future__ import annotations

import time
import traceback

import z3

from cvf.harness import HarnessError, case_hash
from cvf.symx import Explorer

PROPERTY = "C18"
LEVEL = "model_checking"
CASE_TIMEOUT = {"quick": 900, "thorough": 3000}
ENCODED = [
    "cirkit.backend.compiler.CompiledCircuitsMap / AbstractCompiler.compile/is_compiled/has_symbolic/get_compiled_circuit/get_symbolic_circuit",
    "cirkit.utils.algorithms.BiMap",
    "cirkit.backend.torch.compiler.TorchCompiler.compile_pipeline/_compile_circuit",
    "cirkit.symbolic.circuit.pipeline_topological_ordering",
    "cirkit.pipeline.PipelineContext.__enter__/__exit__/compile/integrate/multiply/conjugate/differentiate/concatenate/__getitem__ and the module-level compile/integrate",
    "cirkit.symbolic.registry.OperatorRegistry.__enter__/__exit__ (context variables with tokens)",
]
RULE = (
    "one case = (first call, history length L).  A call history is a vector of L solver variables (op codes); z3 "
    "enumerates every feasible history (all values of every op code, path by path, enabledness of context exits / "
    "re-entries as path conditions) and the REAL objects execute it: two pipeline contexts A and B with different "
    "flags, base circuits c0, c1, symbolic derived circuits (integral, a diamond multiply(c0, conjugate(c0)) and its "
    "mirror image).  Calls: compile of each symbolic circuit in the current context, operator functions on compiled "
    "circuits, module-level compile through the active context, enter A / enter B / normal exit / exit with an "
    "escaping exception.  After EVERY call an independent model (dicts + a stack) is compared with the real state: "
    "compile is memoised (same object), is_compiled / has_symbolic / get_compiled_circuit / get_symbolic_circuit "
    "agree with the model in both directions for every circuit of both contexts, each circuit is compiled once per "
    "context and after all of its operands (order recorded by wrapping the compiler's _compile_circuit), operator "
    "functions return a registered compilation of a symbolic circuit with that operator and those operands, and the "
    "active pipeline context and operator registry are the top of the model stack (the defaults when it is empty).  "
    "states = histories explored; transitions = calls executed."
)
BOUNDS = "histories of L = 4 (quick) / 5 (thorough) calls over 13 call kinds, 2 contexts, nesting depth <= 2, 2 base circuits over 2 variables"
OUTSIDE = "re-entering a context object that is already active (not claimed by the property); threads / asyncio tasks (context variables are per task); longer histories"
ASSUMPTIONS = ["the history is sequential (one thread); contexts are exited in LIFO order, as 'with' blocks guarantee"]
EXPLANATION = "every feasible call history within the bound is enumerated by z3 and executed on the real objects against an independent model"

OPS = [
    "compile(c0)",
    "compile(c1)",
    "compile(integrate(c0))",
    "compile(multiply(c0,conj(c0)))",
    "compile(multiply(conj(c1),c1))",
    "ctx.integrate(cc0)",
    "ctx.multiply(cc0,cc1)",
    "ctx.conjugate(cc0)",
    "pipeline.compile(c0)",
    "enter A",
    "enter B",
    "exit",
    "exit(exception)",
]


def _mk_circuit():
    from cirkit.symbolic import layers as SL
    from cirkit.symbolic.circuit import Circuit
    from cirkit.utils.scope import Scope

    a = SL.CategoricalLayer(Scope([0]), 2, num_categories=2)
    b = SL.CategoricalLayer(Scope([1]), 2, num_categories=2)
    p = SL.HadamardLayer(2, arity=2)
    s = SL.SumLayer(2, 1)
    return Circuit([a, b, p, s], {p: [a, b], s: [p]}, [s])


class World:
    """the real objects + the independent model"""

    def __init__(self):
        import cirkit.symbolic.functional as SF
        from cirkit import pipeline as PL
        from cirkit.pipeline import PipelineContext
        from cirkit.symbolic import registry as RG

        self.PL, self.RG, self.SF = PL, RG, SF
        self.c0, self.c1 = _mk_circuit(), _mk_circuit()
        self.int0 = SF.integrate(self.c0)
        self.conj0 = SF.conjugate(self.c0)
        self.dia0 = SF.multiply(self.c0, self.conj0)
        self.conj1 = SF.conjugate(self.c1)
        self.dia1 = SF.multiply(self.conj1, self.c1)
        self.ctxs = {
            "A": PipelineContext(backend="torch", semiring="sum-product", fold=False, optimize=False),
            "B": PipelineContext(backend="torch", semiring="lse-sum", fold=True, optimize=True),
        }
        self.default_ctx = PL._PIPELINE_CONTEXT.get()
        self.default_reg = RG.OPERATOR_REGISTRY.get()
        self.stack: list[str] = []
        self.model = {"A": {}, "B": {}}  # ctx -> {id(sc): (sc, cc)}
        self.order = {"A": [], "B": []}
        self.known_sc = [self.c0, self.c1, self.int0, self.conj0, self.dia0, self.conj1, self.dia1]
        for name, ctx in self.ctxs.items():
            comp = ctx._compiler
            orig = comp._compile_circuit

            def wrapped(sc, _orig=orig, _name=name):
                self.order[_name].append(sc)
                return _orig(sc)

            comp._compile_circuit = wrapped

    def close(self):
        # leave no context active behind (a failing path may stop with contexts entered)
        while self.stack:
            n = self.stack.pop()
            try:
                self.ctxs[n].__exit__(None, None, None)
            except Exception:  # noqa
                pass

    def cur(self):
        return self.stack[-1] if self.stack else "A"

    def enabled(self, op):
        n = OPS[op]
        if n == "enter A":
            return "A" not in self.stack and len(self.stack) < 2
        if n == "enter B":
            return "B" not in self.stack and len(self.stack) < 2
        if n.startswith("exit"):
            return bool(self.stack)
        name = self.cur()
        m = self.model[name]
        if n in ("ctx.integrate(cc0)", "ctx.conjugate(cc0)"):
            return id(self.c0) in m
        if n == "ctx.multiply(cc0,cc1)":
            return id(self.c0) in m and id(self.c1) in m
        return True

    def _closure(self, sc):
        from cirkit.symbolic.circuit import pipeline_topological_ordering

        return list(pipeline_topological_ordering([sc]))

    def _record(self, name, sc, cc):
        """model update after compile(sc) in context `name`: sc and all its operands are now compiled"""
        ctx = self.ctxs[name]
        m = self.model[name]
        for y in self._closure(sc):
            if id(y) not in m:
                m[id(y)] = (y, ctx.get_compiled_circuit(y))
            if y not in self.known_sc:
                self.known_sc.append(y)
        if m[id(sc)][1] is not cc:
            return f"compile returned {type(cc).__name__}@{id(cc):x} but get_compiled_circuit gives another object"
        return None

    def apply(self, op):
        n = OPS[op]
        SF = self.SF
        name = self.cur()
        ctx = self.ctxs[name]
        m = self.model[name]
        if n == "enter A" or n == "enter B":
            k = n[-1]
            self.ctxs[k].__enter__()
            self.stack.append(k)
            return None
        if n == "exit":
            k = self.stack.pop()
            self.ctxs[k].__exit__(None, None, None)
            return None
        if n == "exit(exception)":
            k = self.stack.pop()
            try:
                raise RuntimeError("escaping")
            except RuntimeError as e:
                r = self.ctxs[k].__exit__(type(e), e, e.__traceback__)
            if r:
                return "__exit__ swallowed the escaping exception"
            return None
        target = {"compile(c0)": self.c0, "compile(c1)": self.c1, "compile(integrate(c0))": self.int0, "compile(multiply(c0,conj(c0)))": self.dia0, "compile(multiply(conj(c1),c1))": self.dia1, "pipeline.compile(c0)": self.c0}.get(n)
        if target is not None:
            before = dict(m)
            if n == "pipeline.compile(c0)":
                # module-level function: uses the ACTIVE context (the default one when no context is entered)
                if not self.stack:
                    cc = self.PL.compile(self.c0)
                    if cc is not self.default_ctx.get_compiled_circuit(self.c0):
                        return "pipeline.compile outside any context did not use the default context"
                    return None
                cc = self.PL.compile(self.c0)
            else:
                cc = ctx.compile(target)
            if id(target) in before and before[id(target)][1] is not cc:
                return f"{n}: compiling again returned a different object"
            return self._record(name, target, cc)
        # operator functions on compiled circuits
        cc0 = m[id(self.c0)][1]
        if n == "ctx.integrate(cc0)":
            cc = ctx.integrate(cc0)
            want_op, want_operands = "INTEGRATION", (self.c0,)
        elif n == "ctx.conjugate(cc0)":
            cc = ctx.conjugate(cc0)
            want_op, want_operands = "CONJUGATION", (self.c0,)
        else:
            cc = ctx.multiply(cc0, m[id(self.c1)][1])
            want_op, want_operands = "MULTIPLICATION", (self.c0, self.c1)
        if not ctx.has_symbolic(cc):
            return f"{n}: the returned compiled circuit is not registered"
        sc = ctx.get_symbolic_circuit(cc)
        if sc.operation is None or sc.operation.operator.name != want_op or len(sc.operation.operands) != len(want_operands) or any(a is not b for a, b in zip(sc.operation.operands, want_operands)):
            return f"{n}: result is the compilation of {None if sc.operation is None else (sc.operation.operator.name, len(sc.operation.operands))}, expected {want_op} of the operands"
        return self._record(name, sc, cc)

    def check(self):
        """compare the real state with the model; returns a message or None"""
        PL, RG = self.PL, self.RG
        top_ctx = self.ctxs[self.stack[-1]] if self.stack else self.default_ctx
        if PL._PIPELINE_CONTEXT.get() is not top_ctx:
            return f"active pipeline context is not the expected one (stack {self.stack})"
        top_reg = self.ctxs[self.stack[-1]]._op_registry if self.stack else self.default_reg
        if RG.OPERATOR_REGISTRY.get() is not top_reg:
            return f"active operator registry is not the expected one (stack {self.stack})"
        for name, ctx in self.ctxs.items():
            m = self.model[name]
            other = self.model["B" if name == "A" else "A"]
            for sc in self.known_sc:
                if ctx.is_compiled(sc) != (id(sc) in m):
                    return f"context {name}: is_compiled says {ctx.is_compiled(sc)}, model says {id(sc) in m}"
            for _, (sc, cc) in m.items():
                if ctx.get_compiled_circuit(sc) is not cc or ctx[sc] is not cc:
                    return f"context {name}: get_compiled_circuit returned a different object than compile did"
                if not ctx.has_symbolic(cc) or ctx.get_symbolic_circuit(cc) is not sc:
                    return f"context {name}: compiled -> symbolic lookup broken"
            for _, (sc, cc) in other.items():
                if ctx.has_symbolic(cc):
                    return f"context {name} claims a circuit compiled in the other context"
            ccs = [id(cc) for _, cc in m.values()]
            if len(set(ccs)) != len(ccs):
                return f"context {name}: two symbolic circuits share one compiled object"
            order = self.order[name]
            if len({id(s) for s in order}) != len(order):
                return f"context {name}: a circuit was compiled twice"
            if {id(s) for s in order} != set(m):
                return f"context {name}: compiled set differs from the model ({len(order)} vs {len(m)})"
            pos = {id(s): i for i, s in enumerate(order)}
            for s in order:
                if s.operation is not None:
                    for o in s.operation.operands:
                        if id(o) not in pos or pos[id(o)] > pos[id(s)]:
                            return f"context {name}: a circuit was compiled before its operand"
        return None


def run_history(ops):
    """returns (ok, msg, trace)"""
    w = World()
    trace = []
    try:
        for i, op in enumerate(ops):
            if not w.enabled(op):
                return True, f"call {i} ({OPS[op]}) not enabled: history infeasible", trace
            trace.append(OPS[op])
            try:
                msg = w.apply(op)
            except Exception as e:  # noqa
                tb = traceback.format_exc()
                from cvf.circuit_check import repo_frame

                return False, f"call {i} {OPS[op]} raised {type(e).__name__}: {str(e)[:120]} at {repo_frame(tb)} after {trace[:-1]}", trace
            if msg is None:
                msg = w.check()
            if msg is not None:
                return False, f"after call {i} {OPS[op]} (history {trace}): {msg}", trace
        return True, "model and real state agree after every call", trace
    finally:
        w.close()


def cases(tier, seed):
    L = 4 if tier == "quick" else 5
    return [{"first": i, "L": L} for i in range(len(OPS))]


def run_case(desc, seed, tier):
    t0 = time.time()
    L, first = desc["L"], desc["first"]
    res = {"status": "ok", "obligations": 0, "discharged": 0, "queries": 0, "solver_s": 0.0, "paths": 0, "violations": [], "inconclusive": [], "transitions": 0}
    ex = Explorer(8, max_paths=200000)
    ops = [z3.Int(f"op{i}") for i in range(L)]
    ex.assume(ops[0] == first)
    for o in ops:
        ex.assume(z3.And(o >= 0, o < len(OPS)))

    def program():
        w = World()
        trace = []
        try:
            for i in range(L):
                # enabledness is a path condition over the op code
                allowed = [k for k in range(len(OPS)) if w.enabled(k)]
                if not ex.decide(z3.Or(*[ops[i] == k for k in allowed])):
                    return ("infeasible", trace)
                op = ex.concretize(ops[i])
                trace.append(op)
                try:
                    msg = w.apply(op)
                except Exception as e:  # noqa
                    return ("bad", list(trace), f"{type(e).__name__}")
                if msg is None:
                    msg = w.check()
                if msg is not None:
                    return ("bad", list(trace), msg)
                res["transitions"] += 1
            return ("ok", trace)
        finally:
            w.close()

    results = ex.run(program)
    res["paths"] = ex.paths
    res["states"] = ex.paths
    seen = set()
    for r, pc in results:
        if r[0] == "infeasible":
            continue
        res["obligations"] += 1
        if r[0] == "ok":
            res["discharged"] += 1
            continue
        hist = r[1]
        ok, msg, _ = run_history(hist)
        if ok:
            raise HarnessError(f"history {hist} failed under exploration ({r[2]}) but not in replay")
        kind = msg.split(":")[0] if "raised" not in msg else "raises:" + msg.split("raised ")[1].split(":")[0]
        last = OPS[hist[-1]]
        sig = f"{last}|{'raises' if 'raised' in msg else 'state'}|{_classify(msg)}"
        if sig in seen:
            continue
        seen.add(sig)
        rp = {"kind": "history", "ops": hist}
        res["violations"].append({"signature": sig, "detail": msg, "replay": rp, "hash": case_hash(rp)})
        res["status"] = "violation"
    if ex.unexplored:
        res["inconclusive"].append(f"{ex.unexplored} history prefixes left unexplored")
    res["queries"] = ex.n_queries
    res["solver_s"] = ex.time
    res["hash"] = case_hash(desc)
    res["nontrivial"] = True
    res["sample"] = {"case": desc, "first_call": OPS[first], "histories": ex.paths, "wall_s": round(time.time() - t0, 2)}
    return res


def _classify(msg):
    for key in ("compiled twice", "before its operand", "different object", "is_compiled says", "lookup broken", "active pipeline context", "active operator registry", "not registered", "expected", "claims a circuit", "share one compiled", "swallowed", "default context", "raised"):
        if key in msg:
            if key == "raised":
                return msg.split("raised ")[1].split(":")[0] + "@" + msg.split(" at ")[-1].split(" after")[0]
            return key
    return msg[:60]


def replay(rp):
    ok, msg, _ = run_history(rp["ops"])
    return ok, msg

"""C15 -- sampling draws from the distribution the circuit encodes."""
from __future__ import annotations

import itertools
import random
import traceback

import numpy as np
import torch

from cirkit.backend.torch.compiler import TorchCompiler
from cirkit.backend.torch.queries import SamplingQuery
from cirkit.symbolic import layers as SL
from cirkit.symbolic.circuit import Circuit
from cirkit.symbolic.parameters import ConstantParameter, Parameter
from cirkit.utils.scope import Scope

from cvf import circuit_check, families, refsem
from cvf import terms as T
from cvf import vals as V
from cvf.harness import HarnessError, Session, SymEnv, bind_shadows, case_hash, eq_goal, write_concrete
from cvf.shadow import Shadow, TranslatorMismatch, Unsupported
from cvf.vals import Val

PROPERTY = "C15"
LEVEL = "translation_validation"
CASE_TIMEOUT = {"quick": 600, "thorough": 1800}
ENCODED = [
    "cirkit.backend.torch.queries.SamplingQuery.__call__/_layer_fn/_pad_samples",
    "cirkit.backend.torch.layers.inner.TorchSumLayer.sample/TorchHadamardLayer.sample/TorchKroneckerLayer.sample",
    "cirkit.backend.torch.layers.optimized.TorchCPTLayer.sample",
    "cirkit.backend.torch.layers.input.TorchCategoricalLayer.sample (torch.distributions.Categorical executed under the shadow engine)",
    "cirkit.backend.torch.graph.modules.TorchDiAcyclicGraph.evaluate (folded evaluation with a module function)",
]
RULE = (
    "one case = (normalised monotonic circuit, flags, number of samples).  SamplingQuery runs under the shadow engine "
    "with aten.multinomial replaced by a stub: every draw is a fresh solver symbol whose distribution is the "
    "(symbolic) probability row the real code passed to the sampler.  The returned sample tensor is then a term "
    "(nested if-then-else / gathers) over the draw symbols.  The EXACT distribution of each returned row is computed "
    "by conditioning on the draw symbols that the term depends on (decision tree; draws the term does not depend on "
    "marginalise to one): P(row = a) = sum over leaves with value a of the product of the draw probabilities, a "
    "polynomial in the circuit's parameters.  z3 decides P(row = a) == c(a) (reference semantics) for EVERY complete "
    "assignment a and all parameter values; this covers support (c(a) = 0 => never returned) and which input layer "
    "fills which column.  For num_samples = 2 the rows must depend on disjoint sets of draws (independence) and each "
    "has that distribution.  distinct = (descriptor, flags); non-trivial = >= 2 symbolic parameters."
)
BOUNDS = "fixed list + (thorough) ~100 random normalised region-graph circuits; categorical inputs with <= 3 categories, <= 4 variables, K <= 2, sum layers of arity 1-3 (dense, mixing, CP-T after optimisation), Hadamard and Kronecker products, structural zeros in inputs and weights, all 4 flag pairs, num_samples in {1,2}"
OUTSIDE = "continuous (Gaussian) and binomial inputs (their samplers are stubs without a density model), convergence rates of empirical frequencies (the exact distribution is decided instead), multi-output circuits (the query returns output 0 unit 0 only)"
ASSUMPTIONS = [
    "aten.multinomial(p) returns category k with probability p[k] / sum(p), independently per row and call (contract of the stub)",
    "torch.allclose is modelled as equality (floats are reals)",
    "parameters are probabilities: raw 'probs' in (0,1) summing to one; softmax outputs abstracted to the open simplex",
]
EXPLANATION = "exact output distribution of the symbolic sampler decided equal to the circuit's distribution by z3 for all parameter values"


# ---------------------------------------------------------------------------------------------


def _zero_circuit(d):
    """hand circuit with structural zeros: sum (arity 2, Ki=2) over two Hadamard products of constant inputs"""
    K = 2
    tabs = d.get("tables") or [
        [[0.5, 0.5, 0.0], [0.0, 0.25, 0.75]],
        [[1.0, 0.0, 0.0], [0.0, 0.0, 1.0]],
        [[0.0, 1.0, 0.0], [0.5, 0.0, 0.5]],
        [[0.25, 0.25, 0.5], [0.0, 1.0, 0.0]],
    ]
    ins = []
    for i, tb in enumerate(tabs):
        ins.append(SL.CategoricalLayer(Scope([i % 2]), K, num_categories=3, probs=Parameter.from_input(ConstantParameter(K, 3, value=np.asarray(tb)))))
    p1, p2 = SL.HadamardLayer(K, arity=2), SL.HadamardLayer(K, arity=2)
    w = np.asarray(d.get("weights") or [[0.5, 0.0, 0.25, 0.25]])
    s = SL.SumLayer(K, 1, arity=2, weight=Parameter.from_input(ConstantParameter(1, 2 * K, value=w)))
    return Circuit(ins + [p1, p2, s], {p1: [ins[0], ins[1]], p2: [ins[2], ins[3]], s: [p1, p2]}, [s])


def build(d):
    if d["kind"] == "zeros":
        return _zero_circuit(d)
    return families.build(d)


def _all(tier):
    out = []
    for inp in ("cat-probs", "cat-softmax"):
        out.append({"kind": "hand", "name": "nested", "K": 2, "input": inp, "ids": [0, 1, 2], "weights": "softmax"})
        out.append({"kind": "hand", "name": "nary-sum", "K": 2, "input": inp, "weights": "softmax", "arity": 2})
    out.append({"kind": "hand", "name": "nary-sum", "K": 2, "input": "cat2-probs", "weights": "softmax", "arity": 3})
    out.append({"kind": "hand", "name": "shared", "K": 2, "input": "cat-probs", "weights": "softmax"})
    out.append({"kind": "hand", "name": "sum-sum", "K": 2, "input": "cat-probs", "weights": "softmax"})
    out.append({"kind": "hand", "name": "had3", "K": 2, "input": "cat-probs", "weights": "softmax", "Ko": 1})
    out.append({"kind": "hand", "name": "kron3", "K": 2, "input": "cat2-probs", "weights": "softmax"})
    out.append({"kind": "hand", "name": "single-input", "K": 2, "input": "cat-probs", "weights": "softmax", "sum": True})
    for sp in ("cp", "cp-t", "tucker"):
        out.append({"kind": "rg", "algo": "rbt", "nvars": 3, "sp": sp, "input": "cat2-softmax", "weights": "softmax", "K": 2})
        out.append({"kind": "rg", "algo": "lt", "nvars": 3, "rep": 2, "randomize": True, "sp": sp, "input": "cat2-softmax", "weights": "softmax", "mixing": "softmax", "K": 2})
        out.append({"kind": "rg", "algo": "qg", "shape": [1, 2, 2], "sp": sp, "input": "cat2-softmax", "weights": "softmax", "mixing": "softmax", "K": 2})
    out.append({"kind": "rg", "algo": "rbt", "nvars": 4, "sp": "cp", "input": "cat2-probs", "weights": "softmax", "K": 2, "ids": None})
    out.append({"kind": "zeros"})
    out.append({"kind": "zeros", "weights": [[0.0, 1.0, 0.0, 0.0]]})
    out.append({"kind": "zeros", "weights": [[0.125, 0.125, 0.5, 0.25]]})
    return out


def cases(tier, seed):
    allc = _all(tier)
    out = []
    flags = circuit_check.FLAGS
    if tier != "quick":
        # random normalised region-graph circuits (fixed generator seed): <= 4 binary / ternary variables
        extra = []
        for c in families.random_members(4001, 160, normalized=True):
            nv = c.get("nvars") or (c["shape"][0] * c["shape"][1] * c["shape"][2])
            if nv <= 4 and not c.get("explicit"):
                extra.append(c)
        for i, c in enumerate(extra):
            f, o = flags[i % 4]
            out.append({"circuit": c, "fold": f, "optimize": o, "N": 1})
    for i, c in enumerate(allc):
        if tier == "quick":
            fl = [flags[(i + seed) % 4], flags[(i + seed + 3) % 4]] if c["kind"] != "zeros" else flags
            ns = [1]
        else:
            fl = flags
            ns = [1, 2]
        for f, o in fl:
            for n in ns:
                out.append({"circuit": c, "fold": f, "optimize": o, "N": n})
    if tier == "quick":
        out.append({"circuit": allc[1], "fold": True, "optimize": True, "N": 2})
        out.append({"circuit": allc[0], "fold": False, "optimize": False, "N": 2})
    return out


# ---------------------------------------------------------------------------------------------


def _syms(terms):
    out = []
    seen = set()
    for t in T.postorder(terms):
        if t.op == "var" and isinstance(t.data, str) and t.data.startswith("rnd_cat") and t.id not in seen:
            seen.add(t.id)
            out.append(t)
    return out


class Distribution:
    """exact distribution of a vector of terms over independent categorical draw symbols, in factored form:
    P(terms = a) = prod over independent coordinate groups of ( sum_k p_s[k] * P(terms[s:=k] = a) ), where s is
    the draw that the outermost if-then-else of the group tests (so the recursion follows the circuit)."""

    def __init__(self, probs_of, budget=400000):
        self.probs_of = probs_of
        self.memo: dict = {}
        self.calls = 0
        self.budget = budget

    @staticmethod
    def _pick(t):
        while True:
            if t.op == "ite":
                ss = _syms([t.args[0]])
                if ss:
                    return ss[0]
                t = t.args[1]
                continue
            ss = _syms([t])
            if not ss:
                raise Unsupported(f"sample entry is neither constant nor built from draws: {T.show(t, 3)}")
            return ss[0]

    def prob(self, terms, target) -> Val:
        rem = []
        for t, a in zip(terms, target):
            if t.op == "const":
                if t.data != a:
                    return Val.const(0)
            else:
                rem.append((t, a))
        if not rem:
            return Val.const(1)
        key = tuple((t.id, a) for t, a in rem)
        if key in self.memo:
            return self.memo[key]
        self.calls += 1
        if self.calls > self.budget:
            raise HarnessError("distribution recursion too large")
        # independent groups of coordinates (no shared draw)
        groups: list[tuple[set, list]] = []
        for t, a in rem:
            ss = {x.id for x in _syms([t])}
            merged = (set(ss), [(t, a)])
            rest = []
            for g in groups:
                if g[0] & merged[0]:
                    merged = (merged[0] | g[0], g[1] + merged[1])
                else:
                    rest.append(g)
            groups = rest + [merged]
        if len(groups) > 1:
            out = None
            for _, items in groups:
                p = self.prob([t for t, _ in items], [a for _, a in items])
                out = p if out is None else out * p
            self.memo[key] = out
            return out
        s = self._pick(rem[0][0])
        ts = [t for t, _ in rem]
        tg = [a for _, a in rem]
        parts = []
        for k, p in enumerate(self.probs_of[s]):
            if p.kind == "lin" and not p.mu and p.im is None and p.re is T.ZERO:
                continue  # structural zero: never drawn (support contract of the stub)
            sub = self.prob(T.substitute(ts, {s: T.const(k)}), tg)
            if sub.kind == "lin" and not sub.mu and sub.im is None and sub.re is T.ZERO:
                continue
            parts.append(p * sub)
        out = Val.const(0)
        if parts:
            out = parts[0]
            for q in parts[1:]:
                out = out + q
        self.memo[key] = out
        return out


def _domain(sc):
    doms = []
    for v in sorted(sc.scope):
        n = refsem.discrete_domain(sc, v)
        if n is None:
            raise Unsupported("continuous variable")
        doms.append(range(n))
    return sorted(sc.scope), doms


def _setup(circuit, seed, overrides=None):
    T.reset_interning()
    sc = build(circuit)
    senv = SymEnv(seed, overrides)
    leaves = circuit_check.setup_leaves(sc, senv, True, True)
    return sc, senv, leaves


def concrete_run(circuit, fold, opt, N, seed, overrides, want=None):
    """statistical replay on the real sampler: empirical frequencies vs. the circuit's probabilities, and
    zero-probability assignments must never be returned."""
    sc, senv, leaves = _setup(circuit, seed, overrides)
    comp = TorchCompiler(semiring="sum-product", fold=fold, optimize=opt)
    try:
        cc = comp.compile(sc)
        write_concrete(comp, senv, leaves)
        torch.manual_seed(1234 + seed)
        n = 40000
        samples, _ = SamplingQuery(cc)(n)
    except Exception as e:  # noqa
        tb = traceback.format_exc()
        return False, f"real code raised {type(e).__name__}: {e} at {circuit_check.repo_frame(tb)}"
    vars_, doms = _domain(sc)
    if tuple(samples.shape) != (n, max(vars_) + 1 if False else len(vars_)) and samples.shape[0] != n:
        return False, f"sample tensor has shape {tuple(samples.shape)}"
    cols = samples[:, : len(vars_)].long().numpy() if samples.shape[1] == len(vars_) else samples.long().numpy()
    counts: dict[tuple, int] = {}
    for r in cols:
        counts[tuple(int(x) for x in r)] = counts.get(tuple(int(x) for x in r), 0) + 1
    worst = None
    for a in itertools.product(*doms):
        row = {v: Val.const(int(x)) for v, x in zip(vars_, a)}
        p = refsem.eval_circuit(sc, row, senv.penv)[0][0].concrete(senv.ctx.env)
        p = float(p.real if isinstance(p, complex) else p)
        f = counts.get(a, 0) / n
        if p <= 1e-12 and counts.get(a, 0) > 0:
            return False, f"assignment {list(a)} has probability 0 under the circuit but was sampled {counts[a]} times out of {n}"
        sd = max((p * (1 - p) / n) ** 0.5, 1e-9)
        z = abs(f - p) / sd
        if z > 6 and (worst is None or z > worst[0]):
            worst = (z, a, p, f)
    if worst is not None:
        z, a, p, f = worst
        return False, f"assignment {list(a)}: circuit probability {p:.4f} but empirical frequency {f:.4f} over {n} samples ({z:.1f} standard deviations)"
    return True, "empirical frequencies agree with the circuit's distribution"


def run_case(desc, seed, tier):
    circuit, fold, opt, N = desc["circuit"], desc["fold"], desc["optimize"], desc["N"]
    res = {"status": "ok", "obligations": 0, "discharged": 0, "syntactic": 0, "queries": 0, "solver_s": 0.0, "paths": 0, "violations": [], "inconclusive": [], "stubs": [], "ops_validated": 0}
    desc_s = families.describe(circuit)
    sc, senv, leaves = _setup(circuit, seed)
    sess = Session(senv, 60000)
    nparams = len(senv.param_vars)
    sizes, ops = {}, set()

    def violation(kind, detail, overrides=None):
        rp = {"kind": "sample", "circuit": circuit, "fold": fold, "optimize": opt, "N": N, "seed": seed, "overrides": overrides or {}}
        res["violations"].append({"signature": f"{kind}|{desc_s}|fold={fold},opt={opt}|N={N}", "detail": detail, "replay": rp, "hash": case_hash(rp)})
        res["status"] = "violation"

    def finish():
        circuit_check._finish(res, sess, senv, circuit, "sum-product", nparams, sizes, ops)
        res["hash"] = case_hash([circuit, fold, opt, N])
        return res

    comp = TorchCompiler(semiring="sum-product", fold=fold, optimize=opt)
    try:
        cc = comp.compile(sc)
        write_concrete(comp, senv, leaves)
        m = Shadow(senv.ctx)
        with m:
            bind_shadows(m, comp, senv, leaves)
            samples, _ = SamplingQuery(cc)(N)
            arr = m.get(samples)
    except (Unsupported, TranslatorMismatch) as e:
        okc, msg = concrete_run(circuit, fold, opt, N, seed, {})
        if okc:
            raise HarnessError(f"shadow engine failed and the statistical replay is fine: {type(e).__name__}: {str(e)[:500]}")
        violation("distribution(concrete-fallback)", msg)
        return finish()
    except HarnessError:
        raise
    except Exception as e:  # noqa
        tb = traceback.format_exc()
        if isinstance(e, TypeError) and "Sampling not implemented" in str(e):
            # documented refusal (e.g. the fused Tucker layer): tallied, not a wrong sample
            res["refused"] = 1
            res["sample"] = {"circuit": circuit, "refused": str(e)}
            res["hash"] = case_hash([circuit, fold, opt, N])
            res["nontrivial"] = False
            return res
        okc, msg = concrete_run(circuit, fold, opt, N, seed, {})
        if okc:
            raise HarnessError(f"exception only under the shadow engine: {type(e).__name__}: {e}\n{tb[-1500:]}")
        violation(f"raises:{type(e).__name__}@{circuit_check.repo_frame(tb)}", msg)
        return finish()
    res["paths"] += 1
    res["ops_validated"] += m.n_validated
    ops.update(m.ops_shadowed)
    vars_, doms = _domain(sc)
    if arr is None or tuple(samples.shape) != (N, len(vars_)):
        okc, msg = concrete_run(circuit, fold, opt, N, seed, {})
        violation("shape", f"sample tensor has shape {tuple(samples.shape)}, expected {(N, len(vars_))}; {msg}")
        return finish()
    probs_of = {}
    for darr, parr in senv.ctx.__dict__.get("random_draws", []):
        for idx in np.ndindex(*darr.shape):
            row = parr[idx[:-1]] if parr.ndim > 1 else parr
            tot = None
            for p in row:
                tot = p if tot is None else tot + p
            # multinomial normalises its argument
            one = tot.kind == "lin" and not tot.mu and tot.re is T.ONE
            probs_of[darr[idx].re] = [p if one else p / tot for p in row]
    sess.sanity()
    used = []
    for n in range(N):
        terms = []
        for j in range(len(vars_)):
            v = arr[n, j]
            if v.kind != "lin" or v.mu or v.im is not None:
                raise HarnessError(f"sample entry of unexpected form {v}")
            terms.append(v.re)
        used.append({s.id for s in _syms(terms)})
        dist = Distribution(probs_of)
        for a in itertools.product(*doms):
            row = {v: Val.const(int(x)) for v, x in zip(vars_, a)}
            ref = refsem.eval_circuit(sc, row, senv.penv)[0][0]
            try:
                got = dist.prob(terms, [T.const(int(x)).data for x in a])
            except Unsupported as e:
                raise HarnessError(str(e))
            goal = eq_goal(got, ref)
            label = f"row{n}:P(sample={list(a)})=c({list(a)})"
            sizes[label] = T.size([goal])
            r = sess.prove(goal, label)
            if r == "cex":
                cex = sess.cex.pop()
                ov = {s.data: v for s, v in cex["env"].items() if s.op == "var" and not s.data.startswith(("MAX#", "LOGABS", "ARG", "rnd_"))}
                try:
                    holds_here = circuit_check._goal_holds_numerically(goal, senv.ctx.env)
                except Exception:
                    holds_here = True
                if not holds_here:
                    ov = {}
                else:
                    ov.update(circuit_check.softmax_overrides(senv.ctx, cex["env"]))
                okc, msg = concrete_run(circuit, fold, opt, N, seed, ov)
                if okc:
                    res["inconclusive"].append(label + " (solver model not confirmed by the statistical replay)")
                    res["aborted"] = "interning reset by replay"
                    return finish()
                violation("distribution", f"{label}: {msg}", ov)
                return finish()
        res["states"] = res.get("states", 0) + dist.calls
    for i, j in itertools.combinations(range(N), 2):
        sess.obligations += 1
        if used[i] & used[j]:
            violation("independence", f"rows {i} and {j} of one call depend on the same random draws")
            return finish()
        sess.discharged += 1
        sess.syntactic += 1
    senv.ctx.obligations.clear()
    senv.ctx.pc.clear()
    return finish()


def replay(rp):
    return concrete_run(rp["circuit"], rp["fold"], rp["optimize"], rp["N"], rp.get("seed", 0), rp.get("overrides", {}))

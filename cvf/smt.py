"""Lowering of terms to z3 and the query driver (validity of an assertion under assumptions)."""
from __future__ import annotations

import time
from fractions import Fraction

import z3

from . import terms as T
from .terms import Term


class Lowerer:
    def __init__(self):
        self.memo: dict[int, z3.ExprRef] = {}
        self.symbols: dict[Term, z3.ExprRef] = {}

    def sym(self, t: Term):
        s = self.symbols.get(t)
        if s is None:
            if t.sort == "I":
                s = z3.Int(t.data)
            elif t.sort == "B":
                s = z3.Bool(t.data)
            else:
                s = z3.Real(t.data)
            self.symbols[t] = s
        return s

    def lower(self, root: Term):
        memo = self.memo
        if root.id in memo:
            return memo[root.id]
        for t in T.postorder([root]):
            if t.id in memo:
                continue
            op = t.op
            a = [memo[x.id] for x in t.args]
            if op == "const":
                q: Fraction = t.data
                e = z3.RealVal(f"{q.numerator}/{q.denominator}") if q.denominator != 1 else z3.RealVal(q.numerator)
            elif op in ("var", "atom"):
                e = self.sym(t)
            elif op == "true":
                e = z3.BoolVal(True)
            elif op == "false":
                e = z3.BoolVal(False)
            elif op == "add":
                e = z3.Sum(*[self._r(x) for x in a])
            elif op == "mul":
                e = z3.Product(*[self._r(x) for x in a])
            elif op == "div":
                e = self._r(a[0]) / self._r(a[1])
            elif op == "pow":
                b = self._r(a[0])
                e = b
                for _ in range(t.data - 1):
                    e = e * b
            elif op == "ite":
                x, y = a[1], a[2]
                if z3.is_bool(x):
                    e = z3.If(a[0], x, y)
                else:
                    e = z3.If(a[0], self._r(x), self._r(y))
            elif op == "lt":
                e = self._r(a[0]) < self._r(a[1])
            elif op == "le":
                e = self._r(a[0]) <= self._r(a[1])
            elif op == "eq":
                e = self._r(a[0]) == self._r(a[1])
            elif op == "iff":
                e = a[0] == a[1]
            elif op == "not":
                e = z3.Not(a[0])
            elif op == "and":
                e = z3.And(*a)
            elif op == "or":
                e = z3.Or(*a)
            elif op == "uf":
                dom = [z3.RealSort()] * len(a)
                rng = {"R": z3.RealSort(), "I": z3.IntSort(), "B": z3.BoolSort()}[t.sort]
                f = z3.Function(t.data, *dom, rng)
                e = f(*[self._r(x) for x in a])
            else:
                raise ValueError(f"cannot lower {op}")
            memo[t.id] = e
        return memo[root.id]

    @staticmethod
    def _r(e):
        if z3.is_int(e):
            return z3.ToReal(e)
        return e


class Query:
    """One solver process; assumptions asserted once; goals checked under push/pop."""

    def __init__(self, timeout_ms: int = 60000):
        self.low = Lowerer()
        # NOTE: no push/pop -- an incremental QF_NRA solver silently falls back from nlsat to the generic
        # SMT core, which neither decides these goals nor honours the timeout.  Every query gets a fresh
        # tactic solver; assumptions are kept as a list of lowered formulas.
        self.lowered_assumptions: list = []
        self.timeout_ms = timeout_ms
        self.time = 0.0
        self.n_queries = 0
        self.n_identity = 0
        self._positive: set[Term] = set()
        self.assumed: list[Term] = []

    def assume(self, t: Term):
        if t is T.TRUE:
            return
        self.assumed.append(t)
        self._declare_atoms([t])
        self.lowered_assumptions.append(self.low.lower(t))

    def _declare_atoms(self, roots):
        for s in T.free_symbols(roots):
            if s.op == "atom" and s not in self._positive:
                self._positive.add(s)
                self.lowered_assumptions.append(self.low.sym(s) > 0)

    def check_sat(self, extra: list[Term]):
        """returns ('sat', model) | ('unsat', None) | ('unknown', None)"""
        self._declare_atoms(extra)
        solver = z3.SolverFor("QF_NRA")
        solver.set("timeout", self.timeout_ms)
        for a in self.lowered_assumptions:
            solver.add(a)
        for t in extra:
            solver.add(self.low.lower(t))
        t0 = time.time()
        r = solver.check()
        self.time += time.time() - t0
        self.n_queries += 1
        rs = str(r)
        if rs == "sat":
            return "sat", solver.model()
        return rs, None

    def identity(self, goal: Term, budget_ms: int = 30000) -> bool:
        """Polynomial-identity stage: for goals that are (conjunctions of) equalities a == b, let z3's
        rewriter normalise a - b to a sum of monomials (simplify with som); if every difference
        reduces to the numeral 0 the goal is valid for ALL values (no assumptions needed)."""
        eqs = goal.args if goal.op == "and" else (goal,)
        if not all(e.op == "eq" for e in eqs):
            return False
        t0 = time.time()
        try:
            tac = z3.TryFor(z3.With("simplify", som=True, som_blowup=10000000, flat=True), budget_ms)
            for e in eqs:
                a, b = self.low.lower(e.args[0]), self.low.lower(e.args[1])
                g = z3.Goal()
                g.add(self.low._r(a) - self.low._r(b) != 0)
                res = tac(g)
                ok = len(res) == 1 and (res[0].inconsistent() or (len(res[0]) == 1 and z3.is_false(res[0][0])))
                if not ok:
                    return False
            return True
        except z3.Z3Exception:
            return False
        finally:
            self.time += time.time() - t0
            self.n_identity += 1

    def valid(self, goal: Term):
        """Is goal implied by the assumptions?  returns ('valid', None) | ('cex', model) | ('unknown', None)"""
        if goal is T.TRUE:
            return "valid", None
        r, m = self.check_sat([T.not_(goal)])
        if r == "unsat":
            return "valid", None
        if r == "sat":
            return "cex", m
        return "unknown", None

    def model_env(self, model, symbols) -> dict[Term, float]:
        env = {}
        for s in symbols:
            z = self.low.sym(s)
            v = model.eval(z, model_completion=True)
            env[s] = z3_to_py(v)
        return env

    def to_smt2(self, extra: list[Term]) -> str:
        s = z3.Solver()
        for a in self.lowered_assumptions:
            s.add(a)
        for t in extra:
            s.add(self.low.lower(t))
        return s.to_smt2()


def z3_to_py(v):
    if z3.is_true(v):
        return True
    if z3.is_false(v):
        return False
    if z3.is_int_value(v):
        return v.as_long()
    if z3.is_rational_value(v):
        return float(Fraction(v.numerator_as_long(), v.denominator_as_long()))
    if z3.is_algebraic_value(v):
        a = v.approx(20)
        return float(Fraction(a.numerator_as_long(), a.denominator_as_long()))
    try:
        return float(v.as_decimal(20).rstrip("?"))
    except Exception:
        return 0.0


def cvc5_check(smt2: str, timeout_ms: int = 60000) -> str:
    """Cross-check an SMT-LIB2 dump with the cvc5 python API.  Returns sat/unsat/unknown/error:..."""
    try:
        import cvc5

        tm = cvc5.TermManager() if hasattr(cvc5, "TermManager") else None
        slv = cvc5.Solver(tm) if tm is not None else cvc5.Solver()
        slv.setOption("tlimit-per", str(timeout_ms))
        slv.setLogic("ALL")
        parser = cvc5.InputParser(slv)
        parser.setStringInput(cvc5.InputLanguage.SMT_LIB_2_6, smt2.replace("(check-sat)", ""), "q")
        sm = parser.getSymbolManager()
        while True:
            cmd = parser.nextCommand()
            if cmd.isNull():
                break
            cmd.invoke(slv, sm)
        r = slv.checkSat()
        if r.isSat():
            return "sat"
        if r.isUnsat():
            return "unsat"
        return "unknown"
    except Exception as e:  # noqa
        return f"error:{type(e).__name__}:{e}"

"""ATen op handlers for the shadow engine (forward + the backward ops autograd emits)."""
from __future__ import annotations

import math

import numpy as np
import torch

from . import terms as T
from . import vals as V
from .shadow import MOVE_OPS, STUBS, Shadow, handler, oarr, stub, tensor_values
from .vals import Unsupported, Val

# ---------------------------------------------------------------------------------------------
# pure data movement (new storage): (data-arg indices, fill-arg)
# ---------------------------------------------------------------------------------------------
MOVE_OPS.update(
    {
        "aten.index.Tensor": ((0,), None),
        "aten.cat.default": ((0,), None),
        "aten.stack.default": ((0,), None),
        "aten.clone.default": ((0,), None),
        "aten.gather.default": ((0,), None),
        "aten.index_select.default": ((0,), None),
        "aten.repeat.default": ((0,), None),
        "aten.flip.default": ((0,), None),
        "aten.roll.default": ((0,), None),
        "aten.constant_pad_nd.default": ((0,), 2),
        "aten.contiguous.default": ((0,), None),
        "aten.expand_copy.default": ((0,), None),
        "aten.permute_copy.default": ((0,), None),
        "aten.index_put_.default": ((0, 2), None),
        "aten.index_put.default": ((0, 2), None),
        "aten.diag_embed.default": ((0,), None),
        "aten.diagonal_copy.default": ((0,), None),
        "aten.tril.default": ((0,), None),
        "aten.triu.default": ((0,), None),
        "aten.select_scatter.default": ((0, 1), None),
        "aten.slice_scatter.default": ((0, 1), None),
        "aten.masked_fill.Scalar": ((0,), 2),
        "aten.masked_fill_.Scalar": ((0,), 2),
        "aten.reshape.default": ((0,), None),
        "aten._reshape_copy.default": ((0,), None),
        "aten.view_copy.default": ((0,), None),
        "aten.unfold.default": ((0,), None),
        "aten.new_zeros.default": ((), None),
        "aten.scatter.src": ((0, 3), None),
        "aten.take_along_dim.default": ((0,), None),
        "aten.movedim.int": ((0,), None),
    }
)


def _uf(f):
    return np.frompyfunc(f, 1, 1)


def _shape(t):
    return tuple(t.shape)


def _bin(m: Shadow, a, b, f):
    x, y = m.arr(a), m.arr(b)
    return np.asarray(np.frompyfunc(f, 2, 1)(x, y), dtype=object)


# ---------------------------------------------------------------------------------------------
# elementwise arithmetic
# ---------------------------------------------------------------------------------------------


@handler("aten.add.Tensor", "aten.add.Scalar", "aten.add_.Tensor", "aten.add_.Scalar")
def h_add(m, func, args, kwargs, out):
    alpha = kwargs.get("alpha", 1)
    if alpha == 1:
        return _bin(m, args[0], args[1], lambda x, y: x + y)
    return _bin(m, args[0], args[1], lambda x, y: x + y * Val.const(alpha))


@handler("aten.sub.Tensor", "aten.sub.Scalar", "aten.sub_.Tensor", "aten.sub_.Scalar")
def h_sub(m, func, args, kwargs, out):
    alpha = kwargs.get("alpha", 1)
    if alpha == 1:
        return _bin(m, args[0], args[1], lambda x, y: x - y)
    return _bin(m, args[0], args[1], lambda x, y: x - y * Val.const(alpha))


@handler("aten.rsub.Scalar", "aten.rsub.Tensor")
def h_rsub(m, func, args, kwargs, out):
    return _bin(m, args[0], args[1], lambda x, y: y - x)


@handler("aten.mul.Tensor", "aten.mul.Scalar", "aten.mul_.Tensor", "aten.mul_.Scalar")
def h_mul(m, func, args, kwargs, out):
    return _bin(m, args[0], args[1], lambda x, y: x * y)


@handler("aten.div.Tensor", "aten.div.Scalar", "aten.div_.Tensor", "aten.div_.Scalar", "aten.true_divide.Tensor")
def h_div(m, func, args, kwargs, out):
    if kwargs.get("rounding_mode") is not None:
        raise Unsupported("div with rounding")
    return _bin(m, args[0], args[1], lambda x, y: x / y)


@handler("aten.neg.default", "aten.neg_.default")
def h_neg(m, func, args, kwargs, out):
    return _uf(lambda v: -v)(m.arr(args[0]))


@handler("aten.reciprocal.default", "aten.reciprocal_.default")
def h_recip(m, func, args, kwargs, out):
    return _uf(lambda v: Val.const(1.0) / v)(m.arr(args[0]))


@handler("aten.exp.default", "aten.exp_.default")
def h_exp(m, func, args, kwargs, out):
    return _uf(lambda v: v.exp())(m.arr(args[0]))


@handler("aten.log.default", "aten.log_.default")
def h_log(m, func, args, kwargs, out):
    return _uf(lambda v: v.log())(m.arr(args[0]))


@handler("aten.log1p.default")
def h_log1p(m, func, args, kwargs, out):
    return _uf(lambda v: (v + 1).log())(m.arr(args[0]))


@handler("aten.sqrt.default")
def h_sqrt(m, func, args, kwargs, out):
    return _uf(lambda v: v.sqrt())(m.arr(args[0]))


@handler("aten.rsqrt.default")
def h_rsqrt(m, func, args, kwargs, out):
    return _uf(lambda v: Val.const(1.0) / v.sqrt())(m.arr(args[0]))


@handler("aten.abs.default")
def h_abs(m, func, args, kwargs, out):
    return _uf(abs)(m.arr(args[0]))


@handler("aten.sigmoid.default")
def h_sigmoid(m, func, args, kwargs, out):
    return _uf(lambda v: v.sigmoid())(m.arr(args[0]))


@handler("aten.softplus.default")
def h_softplus(m, func, args, kwargs, out):
    beta = args[1] if len(args) > 1 else 1
    if beta != 1:
        raise Unsupported("softplus beta")
    return _uf(lambda v: v.softplus())(m.arr(args[0]))


@handler("aten.pow.Tensor_Scalar", "aten.pow_.Scalar")
def h_pow(m, func, args, kwargs, out):
    n = args[1]
    return _uf(lambda v: v**n)(m.arr(args[0]))


@handler("aten.square.default")
def h_square(m, func, args, kwargs, out):
    return _uf(lambda v: v * v)(m.arr(args[0]))


@handler("aten.addcmul.default", "aten.addcmul_.default")
def h_addcmul(m, func, args, kwargs, out):
    value = kwargs.get("value", 1)
    a, b, c = m.arr(args[0]), m.arr(args[1]), m.arr(args[2])
    f = np.frompyfunc(lambda x, y, z: x + (y * z if value == 1 else y * z * Val.const(value)), 3, 1)
    return np.asarray(f(a, b, c), dtype=object)


@handler("aten.addcdiv.default")
def h_addcdiv(m, func, args, kwargs, out):
    value = kwargs.get("value", 1)
    a, b, c = m.arr(args[0]), m.arr(args[1]), m.arr(args[2])
    f = np.frompyfunc(lambda x, y, z: x + (y / z) * Val.const(value), 3, 1)
    return np.asarray(f(a, b, c), dtype=object)


@handler("aten.conj_physical.default", "aten._conj_physical.default")
def h_conj(m, func, args, kwargs, out):
    return _uf(lambda v: v.conjugate())(m.arr(args[0]))


@handler("aten.clamp.default", "aten.clamp_.default", "aten.clamp_min.default", "aten.clamp_max.default")
def h_clamp(m, func, args, kwargs, out):
    name = str(func)
    lo = hi = None
    if "clamp_min" in name:
        lo = args[1]
    elif "clamp_max" in name:
        hi = args[1]
    else:
        lo = args[1] if len(args) > 1 else kwargs.get("min")
        hi = args[2] if len(args) > 2 else kwargs.get("max")
    big = 1e30

    def f(v):
        if v.kind == "log":
            raise Unsupported("clamp of log value")
        r = v
        if lo is not None and lo > -big:
            r = Val.where(r.lt(lo), Val.const(lo), r)
        if hi is not None and hi < big:
            r = Val.where(r.gt(hi), Val.const(hi), r)
        return r

    if (lo is not None and lo <= -big) or (hi is not None and hi >= big):
        m.ctx.stubs_used["clamp-to-finfo-range = identity (no float overflow)"] = 1
    return _uf(f)(m.arr(args[0]))


@handler("aten.nan_to_num.default")
def h_nan_to_num(m, func, args, kwargs, out):
    # identity on finite values; finiteness is an obligation of the caller (C13)
    m.ctx.stubs_used["nan_to_num = identity on finite values"] = 1
    return m.arr(args[0])


# ---------------------------------------------------------------------------------------------
# comparisons / booleans
# ---------------------------------------------------------------------------------------------

for _n, _op in (("eq", "eq"), ("ne", "ne"), ("lt", "lt"), ("le", "le"), ("gt", "gt"), ("ge", "ge")):

    def _mk(op):
        def h(m, func, args, kwargs, out):
            return _bin(m, args[0], args[1], lambda x, y: getattr(x, op)(y))

        return h

    handler(f"aten.{_n}.Scalar", f"aten.{_n}.Tensor")(_mk(_op))


@handler("aten.logical_not.default", "aten.bitwise_not.default")
def h_not(m, func, args, kwargs, out):
    return _uf(lambda v: ~v)(m.arr(args[0]))


@handler("aten.logical_and.default", "aten.bitwise_and.Tensor", "aten.logical_and_.default")
def h_and(m, func, args, kwargs, out):
    return _bin(m, args[0], args[1], lambda x, y: x & y)


@handler("aten.logical_or.default", "aten.bitwise_or.Tensor", "aten.logical_or_.default")
def h_or(m, func, args, kwargs, out):
    return _bin(m, args[0], args[1], lambda x, y: x | y)


@handler("aten.where.self", "aten.where.ScalarSelf", "aten.where.ScalarOther")
def h_where(m, func, args, kwargs, out):
    c, a, b = m.arr(args[0]), m.arr(args[1]), m.arr(args[2])
    f = np.frompyfunc(lambda cc, x, y: Val.where(cc, x, y), 3, 1)
    return np.asarray(f(c, a, b), dtype=object)


def _reduce_bool(m, args, conj):
    a = m.arr(args[0])
    dim = args[1] if len(args) > 1 else None
    keep = args[2] if len(args) > 2 else False

    def tobool(v):
        return v if v.kind == "bool" else v.ne(0)

    a = _uf(tobool)(a)
    f = (lambda x, y: x & y) if conj else (lambda x, y: x | y)
    uf = np.frompyfunc(f, 2, 1)
    if dim is None:
        flat = a.ravel()
        r = flat[0]
        for x in flat[1:]:
            r = f(r, x)
        return oarr(r)
    return uf.reduce(a, axis=dim, keepdims=keep)


@handler("aten.any.default", "aten.any.dim", "aten._is_any_true.default")
def h_any(m, func, args, kwargs, out):
    return _reduce_bool(m, args, False)


@handler("aten.all.default", "aten.all.dim", "aten._is_all_true.default")
def h_all(m, func, args, kwargs, out):
    return _reduce_bool(m, args, True)


@handler("aten.isnan.default", "aten.isinf.default")
def h_isnan(m, func, args, kwargs, out):
    m.ctx.stubs_used["isnan/isinf = False on real-valued terms"] = 1
    return _uf(lambda v: Val.const(False))(m.arr(args[0]))


# ---------------------------------------------------------------------------------------------
# dtype conversion
# ---------------------------------------------------------------------------------------------


@handler("aten._to_copy.default", "aten.to.dtype", "aten.copy_.default", "aten.type_as.default")
def h_to_copy(m, func, args, kwargs, out):
    name = str(func)
    if name == "aten.copy_.default":
        dst, src = args[0], args[1]
        a = m.arr(src)
        target_dtype = dst.dtype
        a = np.broadcast_to(a, _shape(dst))
        src_dtype = src.dtype if isinstance(src, torch.Tensor) else None
    else:
        src = args[0]
        a = m.arr(src)
        target_dtype = kwargs.get("dtype") or (args[1] if len(args) > 1 and isinstance(args[1], torch.dtype) else src.dtype)
        if name == "aten.type_as.default":
            target_dtype = args[1].dtype
        src_dtype = src.dtype
    return _convert(a, src_dtype, target_dtype)


def _convert(a, src_dtype, dst_dtype):
    if src_dtype == dst_dtype or src_dtype is None:
        return np.asarray(a, dtype=object)
    if dst_dtype.is_complex:
        return _uf(lambda v: v.to_complex())(a)
    if src_dtype.is_complex and not dst_dtype.is_complex:
        return _uf(lambda v: v.real())(a)
    if src_dtype == torch.bool:
        return _uf(lambda v: Val.where(v, Val.const(1), Val.const(0)) if v.kind == "bool" else v)(a)
    if dst_dtype == torch.bool:
        return _uf(lambda v: v.ne(0) if v.kind != "bool" else v)(a)
    if dst_dtype.is_floating_point:
        return np.asarray(a, dtype=object)
    if not dst_dtype.is_floating_point and not src_dtype.is_floating_point:
        return np.asarray(a, dtype=object)
    # float -> int truncation: only the identity on integer-sorted terms is representable

    def f(v):
        if v.kind == "lin" and v.im is None and not v.mu and (
            v.re.sort == "I" or v.re in V.ctx().int_domains or (v.re.op == "const" and v.re.data.denominator == 1)
        ):
            return v
        raise Unsupported("float->int conversion of a non-integer symbolic value")

    return _uf(f)(a)


@handler("aten.fill_.Scalar", "aten.fill_.Tensor", "aten.fill.Scalar")
def h_fill(m, func, args, kwargs, out):
    v = args[1]
    a = m.arr(v) if isinstance(v, torch.Tensor) else oarr(Val.const(v))
    return np.broadcast_to(a, _shape(args[0]))


@handler("aten.zero_.default")
def h_zero(m, func, args, kwargs, out):
    return np.broadcast_to(oarr(Val.const(0.0)), _shape(args[0]))


@handler("aten.complex.default")
def h_complex(m, func, args, kwargs, out):
    def f(x, y):
        if x.kind != "lin" or y.kind != "lin":
            raise Unsupported("complex() of non-lin")
        return x.to_complex() + y.to_complex() * Val("lin", T.ZERO, T.ONE)

    return _bin(m, args[0], args[1], f)


@handler("aten.view_as_complex.default")
def h_view_as_complex(m, func, args, kwargs, out):
    raise Unsupported("view_as_complex on shadowed tensor")


# ---------------------------------------------------------------------------------------------
# reductions
# ---------------------------------------------------------------------------------------------


def _norm_dims(dim, nd):
    if dim is None or (isinstance(dim, (list, tuple)) and len(dim) == 0):
        return tuple(range(nd))
    if isinstance(dim, int):
        dim = [dim]
    return tuple(d % nd for d in dim)


def _reduce(a, dims, keep, f):
    uf = np.frompyfunc(f, 2, 1)
    r = a
    for d in sorted(dims, reverse=True):
        r = uf.reduce(r, axis=d, keepdims=True)
    if not keep:
        r = np.asarray(r, dtype=object).reshape([s for i, s in enumerate(a.shape) if i not in dims])
    return np.asarray(r, dtype=object)


@handler("aten.sum.dim_IntList", "aten.sum.default")
def h_sum(m, func, args, kwargs, out):
    a = m.arr(args[0])
    dims = _norm_dims(args[1] if len(args) > 1 else None, a.ndim)
    keep = args[2] if len(args) > 2 else False
    if a.ndim == 0:
        return a
    return _reduce(a, dims, keep, lambda x, y: x + y)


@handler("aten.prod.dim_int", "aten.prod.default")
def h_prod(m, func, args, kwargs, out):
    a = m.arr(args[0])
    dims = _norm_dims(args[1] if len(args) > 1 else None, a.ndim)
    keep = args[2] if len(args) > 2 else False
    return _reduce(a, dims, keep, lambda x, y: x * y)


@handler("aten.mean.dim")
def h_mean(m, func, args, kwargs, out):
    a = m.arr(args[0])
    dims = _norm_dims(args[1], a.ndim)
    keep = args[2] if len(args) > 2 else False
    n = 1
    for d in dims:
        n *= a.shape[d]
    r = _reduce(a, dims, keep, lambda x, y: x + y)
    return _uf(lambda v: v / n)(r)


@handler("aten.amax.default", "aten.max.dim", "aten.amin.default")
def h_amax(m, func, args, kwargs, out):
    if "amin" in str(func):
        raise Unsupported("amin")
    a = m.arr(args[0])
    dims = _norm_dims(args[1] if len(args) > 1 else None, a.ndim)
    keep = args[2] if len(args) > 2 else False
    if str(func) == "aten.max.dim":
        raise Unsupported("max.dim with indices")
    real = tensor_values(out)
    # move reduced dims last
    other = [i for i in range(a.ndim) if i not in dims]
    perm = other + list(dims)
    at = np.transpose(a, perm).reshape([a.shape[i] for i in other] + [-1])
    res = np.empty(at.shape[:-1], dtype=object)
    realr = real.reshape(res.shape)
    for idx in np.ndindex(*res.shape):
        group = at[idx]
        keys = tuple(v.key() for v in group)
        if all(v.kind == "lin" and not v.mu and v.im is None and v.re.op == "const" for v in group):
            res[idx] = Val.const(max(float(v.re.data) for v in group))
            continue
        if len(set(keys)) == 1 and group[0].kind == "lin":
            res[idx] = group[0]
            continue
        mv = m.ctx.max_atom(keys, float(realr[idx]))
        m.ctx.__dict__.setdefault("max_groups", {})[mv] = list(group)
        res[idx] = Val("lin", mv)
    if keep:
        shp = [1 if i in dims else a.shape[i] for i in range(a.ndim)]
        res = res.reshape(shp)
    return res


@handler("aten.logsumexp.default")
def h_logsumexp(m, func, args, kwargs, out):
    a = m.arr(args[0])
    dims = _norm_dims(args[1], a.ndim)
    keep = args[2] if len(args) > 2 else False
    e = _uf(lambda v: v.exp())(a)
    s = _reduce(e, dims, keep, lambda x, y: x + y)
    return _uf(lambda v: v.log())(s)


def _softmax_along(a, d, post=None):
    a2 = np.moveaxis(a, d, -1)
    out = np.empty(a2.shape, dtype=object)
    for idx in np.ndindex(*a2.shape[:-1]):
        lane = V.softmax_lane(list(a2[idx]))
        out[idx] = [post(v) for v in lane] if post else lane
    return np.moveaxis(out, -1, d)


@handler("aten._softmax.default")
def h_softmax(m, func, args, kwargs, out):
    a = m.arr(args[0])
    return _softmax_along(a, args[1] % a.ndim)


@handler("aten._log_softmax.default")
def h_log_softmax(m, func, args, kwargs, out):
    a = m.arr(args[0])
    return _softmax_along(a, args[1] % a.ndim, post=lambda v: v.log())


@handler("aten.cumsum.default")
def h_cumsum(m, func, args, kwargs, out):
    a = m.arr(args[0])
    d = args[1] % a.ndim
    return np.frompyfunc(lambda x, y: x + y, 2, 1).accumulate(a, axis=d)


# ---------------------------------------------------------------------------------------------
# linear algebra
# ---------------------------------------------------------------------------------------------


@handler("aten.bmm.default", "aten.mm.default", "aten.matmul.default")
def h_mm(m, func, args, kwargs, out):
    a, b = m.arr(args[0]), m.arr(args[1])
    return np.asarray(np.matmul(a, b), dtype=object)


@handler("aten.addmm.default")
def h_addmm(m, func, args, kwargs, out):
    c, a, b = m.arr(args[0]), m.arr(args[1]), m.arr(args[2])
    beta, alpha = kwargs.get("beta", 1), kwargs.get("alpha", 1)
    r = np.matmul(a, b)
    if alpha != 1:
        r = r * Val.const(alpha)
    if beta != 1:
        c = c * Val.const(beta)
    return np.asarray(r + c, dtype=object)


@handler("aten.dot.default")
def h_dot(m, func, args, kwargs, out):
    a, b = m.arr(args[0]), m.arr(args[1])
    return oarr(np.dot(a, b))


# ---------------------------------------------------------------------------------------------
# FFT (polynomial products): exact DFT over the roots of unity taken as float constants
# ---------------------------------------------------------------------------------------------


@handler("aten._fft_r2c.default")
def h_fft_r2c(m, func, args, kwargs, out):
    from .cyc import CycVal, zeta_pow

    x, dims, norm, onesided = args[0], args[1], args[2], args[3]
    a = m.arr(x)
    if list(dims) not in ([a.ndim - 1], [-1]) or norm != 0:
        raise Unsupported("fft config")
    n = a.shape[-1]
    n_out = out.shape[-1]
    res = np.empty(tuple(out.shape), dtype=object)
    for idx in np.ndindex(*a.shape[:-1]):
        lane = [CycVal.lift(v, n) for v in a[idx]]
        for k in range(n_out):
            acc = CycVal(n, {})
            for j, v in enumerate(lane):
                acc = acc + v.times_zeta(-(j * k))
            res[idx + (k,)] = acc
    return res


@handler("aten._fft_c2r.default")
def h_fft_c2r(m, func, args, kwargs, out):
    from .cyc import CycVal

    x, dims, norm, last = args[0], args[1], args[2], args[3]
    a = m.arr(x)
    if list(dims) not in ([a.ndim - 1], [-1]):
        raise Unsupported("fft config")
    n = last
    res = np.empty(tuple(out.shape), dtype=object)
    for idx in np.ndindex(*a.shape[:-1]):
        half = [CycVal.lift(v, n) for v in a[idx]]
        full = [half[k] if k < len(half) else half[n - k].conjugate() for k in range(n)]
        for k in range(n):
            acc = CycVal(n, {})
            for j, v in enumerate(full):
                acc = acc + v.times_zeta(j * k)
            v = acc.to_val().real()
            if norm == 2:  # backward: 1/n
                v = v / n
            elif norm == 1:
                raise Unsupported("ortho norm")
            res[idx + (k,)] = v
    return res


@handler("aten._fft_c2c.default")
def h_fft_c2c(m, func, args, kwargs, out):
    from .cyc import CycVal

    x, dims, norm, forward = args[0], args[1], args[2], args[3]
    a = m.arr(x)
    if list(dims) not in ([a.ndim - 1], [-1]):
        raise Unsupported("fft config")
    n = a.shape[-1]
    res = np.empty(tuple(out.shape), dtype=object)
    for idx in np.ndindex(*a.shape[:-1]):
        lane = [CycVal.lift(v, n) for v in a[idx]]
        for k in range(n):
            acc = CycVal(n, {})
            for j, v in enumerate(lane):
                acc = acc + v.times_zeta((j * k) if not forward else -(j * k))
            if norm == 2:
                acc = acc / n
            elif norm == 1:
                raise Unsupported("ortho norm")
            # forward transforms stay in the cyclotomic form; inverse ones return to ordinary values
            res[idx + (k,)] = acc if forward else acc.to_val()
    return res


# ---------------------------------------------------------------------------------------------
# indexing with a symbolic integer index (discrete circuit inputs, sampled mixture indices)
# ---------------------------------------------------------------------------------------------


def symbolic_index(m: Shadow, func, args, kwargs, out, spec, idx_path):
    """One index tensor (at args[idx_path]) carries integer-sorted symbolic values.  Every output
    element depends on exactly one element of it; find which by perturbation, then build an
    if-then-else chain over the admissible index values."""
    if len(idx_path) == 2:
        holder = list(args[idx_path[0]])
        xt = holder[idx_path[1]]
    else:
        holder = None
        xt = args[idx_path[0]]
    xs = m.get(xt)
    data = args[0]
    if str(func).startswith("aten.index"):
        dim = idx_path[1]
    else:
        dim = args[1] % data.dim()
    N = data.shape[dim]
    x0 = xt.clone()

    def run(xv):
        a2 = list(args)
        if holder is not None:
            h2 = list(holder)
            h2[idx_path[1]] = xv
            a2[idx_path[0]] = h2
        else:
            a2[idx_path[0]] = xv
        return m._moved(func, a2, kwargs, spec, out, positions=True)

    pool, base = run(x0)
    shape = base.shape
    dep = np.full(shape, -1, dtype=np.int64)
    cands = [np.array(base, copy=True) for _ in range(N)]
    flatx = x0.reshape(-1)
    xsf = xs.ravel()
    for p in range(flatx.numel()):
        if xsf[p].re.op == "const":
            continue
        orig = int(flatx[p])
        for v in range(N):
            if v == orig:
                continue
            xv = x0.clone().reshape(-1)
            xv[p] = v
            _, r = run(xv.reshape(x0.shape))
            changed = r != base
            dep[changed] = p
            cands[v][changed] = r[changed]
    base = pool[base]
    cands = [pool[c] for c in cands]
    res = np.empty(shape, dtype=object)
    for o in np.ndindex(*shape):
        p = dep[o]
        if p < 0:
            res[o] = base[o]
            continue
        xv = xsf[p]
        m.ctx.obligations.append((T.and_(T.ge(xv.re, T.ZERO), T.lt(xv.re, T.const(N))), f"index in range [0,{N})"))
        chain = cands[N - 1][o]
        for v in range(N - 2, -1, -1):
            chain = Val.where(xv.eq(v), cands[v][o], chain)
        res[o] = chain
    return res


def _wrap_index(name, spec):
    def h(m, func, args, kwargs, out):
        if name.startswith("aten.index."):
            for j, it in enumerate(args[1]):
                if isinstance(it, torch.Tensor) and m.has(it):
                    return symbolic_index(m, func, args, kwargs, out, spec, (1, j))
        elif name in ("aten.gather.default", "aten.index_select.default", "aten.take_along_dim.default"):
            if m.has(args[2]):
                return symbolic_index(m, func, args, kwargs, out, spec, (2,))
        return m._moved(func, args, kwargs, spec, out)

    return h


for _n in ("aten.index.Tensor", "aten.gather.default", "aten.index_select.default", "aten.take_along_dim.default"):
    HSPEC = MOVE_OPS.pop(_n)
    handler(_n)(_wrap_index(_n, HSPEC))


# ---------------------------------------------------------------------------------------------
# random sources: stubs (fresh symbols constrained only by the documented contract)
# ---------------------------------------------------------------------------------------------


def _fresh_array(m: Shadow, t: torch.Tensor, prefix: str, sort="R", positive=False, info=None):
    vals = tensor_values(t)
    arr = np.empty(vals.shape, dtype=object)
    ctx = m.ctx
    rinfo = ctx.__dict__.setdefault("rnd_info", {})
    call_no = ctx.__dict__.get("rnd_calls", 0) + 1
    ctx.__dict__["rnd_calls"] = call_no
    for idx in np.ndindex(*vals.shape) if vals.shape else [()]:
        name = ctx.fresh_name(prefix)
        if info is not None:
            rinfo[name] = (call_no,) + tuple(info(idx) if callable(info) else info)
        x = vals[idx].item()
        if positive:
            s = T.atom(name)
        else:
            s = T.var(name, sort)
        ctx.env[s] = x
        arr[idx] = Val("lin", s)
    return arr


@stub("aten.normal_.default")
def s_normal(m, func, args, kwargs, out):
    t = args[0]
    mean = args[1] if len(args) > 1 else kwargs.get("mean", 0.0)
    std = args[2] if len(args) > 2 else kwargs.get("std", 1.0)
    arr = _fresh_array(m, t, "rnd_normal", info=("normal", float(mean), float(std)))
    m.ctx.stubs_used["aten.normal_ -> fresh reals (any value)"] = m.ctx.stubs_used.get("aten.normal_ -> fresh reals (any value)", 0) + 1
    m.ctx.__dict__.setdefault("random_calls", []).append(("normal", float(mean), float(std), tuple(t.shape)))
    m.write(t, arr)


@stub("aten.uniform_.default")
def s_uniform(m, func, args, kwargs, out):
    t = args[0]
    a = args[1] if len(args) > 1 else kwargs.get("from", 0.0)
    b = args[2] if len(args) > 2 else kwargs.get("to", 1.0)
    arr = _fresh_array(m, t, "rnd_uniform", info=("uniform", float(a), float(b)))
    for v in arr.ravel():
        m.ctx.assumptions.append(T.and_(T.ge(v.re, T.const(a)), T.le(v.re, T.const(b))))
    m.ctx.stubs_used["aten.uniform_ -> fresh reals in [a,b]"] = 1
    m.ctx.__dict__.setdefault("random_calls", []).append(("uniform", float(a), float(b), tuple(t.shape)))
    m.write(t, arr)


@stub("aten._sample_dirichlet.default")
def s_dirichlet(m, func, args, kwargs, out):
    _alpha = args[0]
    arr = _fresh_array(m, out, "rnd_dirichlet", positive=True, info=lambda idx: ("dirichlet", float(_alpha[idx].item()), idx[:-1], idx[-1]))
    # rows along the last dim are positive and sum to one
    for idx in np.ndindex(*arr.shape[:-1]):
        s = T.add(*[v.re for v in arr[idx]])
        m.ctx.assumptions.append(T.eq(s, T.ONE))
    m.ctx.stubs_used["aten._sample_dirichlet -> fresh positives summing to 1 along the last dim"] = 1
    m.ctx.__dict__.setdefault("random_calls", []).append(("dirichlet", tuple(out.shape)))
    m.write(out, arr)


@stub("aten.multinomial.default")
def s_multinomial(m, func, args, kwargs, out):
    probs = args[0]
    arr = _fresh_array(m, out, "rnd_cat", sort="I")
    n = probs.shape[-1]
    parr = m.arr(probs)
    for idx in np.ndindex(*arr.shape):
        v = arr[idx]
        m.ctx.int_domains[v.re] = (0, n)
        m.ctx.assumptions.append(T.and_(T.ge(v.re, T.ZERO), T.lt(v.re, T.const(n))))
        # support: the drawn category has positive probability
        row = parr[idx[:-1]] if parr.ndim > 1 else parr
        pos = T.or_(*[T.and_(T.eq(v.re, T.const(k)), row[k].gt(0).re) for k in range(n)])
        m.ctx.assumptions.append(pos)
    m.ctx.stubs_used["aten.multinomial -> fresh ints in range with positive probability"] = 1
    m.ctx.__dict__.setdefault("random_draws", []).append((arr, parr))
    m.write(out, arr)


@stub("aten.bernoulli.default", "aten.bernoulli.p", "aten.binomial.default", "aten.poisson.default", "aten.rand.default", "aten.randn.default", "aten.rand_like.default", "aten.randn_like.default", "aten.randint.default", "aten.randint.low", "aten.randperm.default", "aten.normal.Tensor_Tensor", "aten.normal.Tensor_float", "aten.normal.float_Tensor", "aten.exponential_.default")
def s_generic_random(m, func, args, kwargs, out):
    name = str(func)
    t = out if isinstance(out, torch.Tensor) else args[0]
    integer = not t.dtype.is_floating_point
    arr = _fresh_array(m, t, "rnd_" + name.split(".")[1], sort="I" if integer else "R")
    m.ctx.stubs_used[f"{name} -> fresh unconstrained symbols"] = 1
    m.ctx.__dict__.setdefault("random_calls", []).append((name, tuple(t.shape)))
    m.write(t, arr)

"""Engine B: symbolic execution of structure-level Python (scopes, graphs, registries).

The real `cirkit.utils.scope.Scope` keeps a `frozenset` of variable ids.  At harness time the module
global name `frozenset` of cirkit.utils.scope is rebound to `symfrozenset`, which returns `SymSet`
objects: N-bit z3 bit-vectors with the frozenset interface.  Every Python branch on a symbolic
condition (`SymBool.__bool__`, `len`, iteration) asks z3 which outcomes are feasible under the current
path condition, follows one and queues the other; paths are explored by deterministic re-execution of
decision prefixes.  Oracles are z3 formulas over the leaf bit-vectors.
"""
from __future__ import annotations

import itertools
import time

import z3

_CUR = [None]  # the active Explorer


class PathAbort(BaseException):
    """unwinds the program under test when a path is infeasible / budget exceeded"""


class Explorer:
    def __init__(self, nbits: int, max_paths: int = 2000, timeout_ms: int = 20000):
        self.nbits = nbits
        self.max_paths = max_paths
        self.pending: list[list[bool]] = [[]]
        self.paths = 0
        self.timeout_ms = timeout_ms
        self._ps = None
        self._ps_n = 0
        self._ps_pc_id = None
        self.base: list = []
        self.n_queries = 0
        self.time = 0.0
        self.unexplored = 0
        # per path
        self.prefix: list[bool] = []
        self.decisions: list[bool] = []
        self.pc: list = []

    # -- constraints common to all paths
    def assume(self, c):
        self.base.append(c)
        self._ps = None

    def _path_solver(self):
        """incremental solver holding base + the current path condition"""
        if self._ps is None or self._ps_n > len(self.pc) or self._ps_pc_id != id(self.pc):
            s = z3.Solver()
            s.set("timeout", self.timeout_ms)
            for c in self.base:
                s.add(c)
            self._ps = s
            self._ps_n = 0
            self._ps_pc_id = id(self.pc)
        for c in self.pc[self._ps_n :]:
            self._ps.add(c)
        self._ps_n = len(self.pc)
        return self._ps

    def _check(self, extra) -> str:
        t0 = time.time()
        try:
            s = self._path_solver()
            extra = list(extra)
            if len(extra) > 1:
                extra = [z3.And(*extra)]
            r = s.check(*extra)
            self.n_queries += 1
            return str(r)
        finally:
            self.time += time.time() - t0

    def with_pc(self, pc):
        """switch to a recorded path condition (for post-hoc oracle queries)"""
        self.pc = list(pc)
        self._ps = None

    def sat(self, extra=()) -> bool:
        return self._check(extra) == "sat"

    def model(self, extra=()):
        t0 = time.time()
        try:
            s = self._path_solver()
            extra = list(extra)
            if len(extra) > 1:
                extra = [z3.And(*extra)]
            r = s.check(*extra)
            self.n_queries += 1
            if str(r) != "sat":
                return None
            return s.model()
        finally:
            self.time += time.time() - t0

    def decide(self, cond) -> bool:
        """branch on a z3 Bool"""
        cond = z3.simplify(cond)
        if z3.is_true(cond):
            return True
        if z3.is_false(cond):
            return False
        i = len(self.decisions)
        if i < len(self.prefix):
            b = self.prefix[i]
        else:
            can_t = self.sat([cond])
            can_f = self.sat([z3.Not(cond)])
            if can_t and can_f:
                b = True
                self.pending.append(self.decisions + [False])
            elif can_t:
                b = True
            elif can_f:
                b = False
            else:
                raise PathAbort("infeasible path")
        self.decisions.append(b)
        self.pc.append(cond if b else z3.Not(cond))
        return b

    def concretize(self, expr):
        """pick (by forking over all feasible values) a concrete value of a z3 bit-vector/int term"""
        while True:
            m = self.model()
            if m is None:
                raise PathAbort("infeasible path")
            v = m.eval(expr, model_completion=True)
            if self.decide(expr == v):
                return v.as_long()

    def run(self, program):
        """program(): executes the code under test once for the current path; returns a value.
        Yields (result, explorer-state) for every explored path."""
        results = []
        while self.pending:
            if self.paths >= self.max_paths:
                self.unexplored = len(self.pending)
                break
            self.prefix = self.pending.pop()
            self.decisions = []
            self.pc = []
            self._ps = None
            _CUR[0] = self
            try:
                r = program()
            except PathAbort:
                continue
            finally:
                _CUR[0] = None
            self.paths += 1
            results.append((r, list(self.pc)))
        return results


def cur() -> Explorer:
    e = _CUR[0]
    if e is None:
        raise RuntimeError("symbolic object used outside an Explorer run")
    return e


class SymBool:
    __slots__ = ("z",)

    def __init__(self, z):
        self.z = z

    def __bool__(self):
        return cur().decide(self.z)

    def __invert__(self):
        return SymBool(z3.Not(self.z))

    def __and__(self, o):
        return SymBool(z3.And(self.z, _zb(o)))

    def __or__(self, o):
        return SymBool(z3.Or(self.z, _zb(o)))

    def __eq__(self, o):
        return SymBool(self.z == _zb(o))

    def __hash__(self):
        return 0


def _zb(o):
    if isinstance(o, SymBool):
        return o.z
    return z3.BoolVal(bool(o))


class SymInt:
    """small symbolic variable id (z3 bit-vector of the scope width)"""

    __slots__ = ("z",)

    def __init__(self, z):
        self.z = z

    def __index__(self):
        return cur().concretize(self.z)

    __int__ = __index__

    def __eq__(self, o):
        return SymBool(self.z == _zi(o, self.z.size()))

    def __ne__(self, o):
        return SymBool(self.z != _zi(o, self.z.size()))

    def __lt__(self, o):
        return SymBool(z3.ULT(self.z, _zi(o, self.z.size())))

    def __le__(self, o):
        return SymBool(z3.ULE(self.z, _zi(o, self.z.size())))

    def __gt__(self, o):
        return SymBool(z3.UGT(self.z, _zi(o, self.z.size())))

    def __ge__(self, o):
        return SymBool(z3.UGE(self.z, _zi(o, self.z.size())))

    def __hash__(self):
        return hash(cur().concretize(self.z))


def _zi(o, n):
    if isinstance(o, SymInt):
        return o.z
    return z3.BitVecVal(int(o), n)


class SymSet:
    """frozenset of variable ids in [0, nbits) as a z3 bit-vector"""

    __slots__ = ("z",)

    def __init__(self, z):
        self.z = z

    @staticmethod
    def of(items, nbits):
        z = z3.BitVecVal(0, nbits)
        for it in items:
            if isinstance(it, SymInt):
                z = z | (z3.BitVecVal(1, nbits) << it.z)
            else:
                if not 0 <= int(it) < nbits:
                    raise ValueError(f"variable id {it} outside the symbolic scope width {nbits}")
                z = z | z3.BitVecVal(1 << int(it), nbits)
        return SymSet(z)

    def _n(self):
        return self.z.size()

    # set algebra
    def __and__(self, o):
        return SymSet(self.z & _zs(o, self._n()))

    __rand__ = __and__

    def __or__(self, o):
        return SymSet(self.z | _zs(o, self._n()))

    __ror__ = __or__

    def union(self, *others):
        z = self.z
        for o in others:
            z = z | _zs(o, self._n())
        return SymSet(z)

    def intersection(self, *others):
        z = self.z
        for o in others:
            z = z & _zs(o, self._n())
        return SymSet(z)

    def difference(self, *others):
        z = self.z
        for o in others:
            z = z & ~_zs(o, self._n())
        return SymSet(z)

    def __sub__(self, o):
        return self.difference(o)

    def __eq__(self, o):
        if not isinstance(o, (SymSet, frozenset, set)):
            return NotImplemented
        return SymBool(self.z == _zs(o, self._n()))

    def __ne__(self, o):
        return SymBool(self.z != _zs(o, self._n()))

    def __le__(self, o):
        oz = _zs(o, self._n())
        return SymBool((self.z & ~oz) == 0)

    def __lt__(self, o):
        oz = _zs(o, self._n())
        return SymBool(z3.And((self.z & ~oz) == 0, self.z != oz))

    def __ge__(self, o):
        oz = _zs(o, self._n())
        return SymBool((oz & ~self.z) == 0)

    def __gt__(self, o):
        oz = _zs(o, self._n())
        return SymBool(z3.And((oz & ~self.z) == 0, self.z != oz))

    def isdisjoint(self, o):
        return SymBool((self.z & _zs(o, self._n())) == 0)

    def issubset(self, o):
        return self <= o

    def __contains__(self, item):
        n = self._n()
        if isinstance(item, SymInt):
            bit = (self.z >> item.z) & 1
        else:
            if not 0 <= int(item) < n:
                return False
            bit = z3.Extract(int(item), int(item), self.z)
            return cur().decide(bit == 1)
        return cur().decide(z3.Extract(0, 0, bit) == 1)

    def popcount(self):
        n = self._n()
        return z3.Sum(*[z3.ZeroExt(8, z3.Extract(i, i, self.z)) for i in range(n)])

    def __len__(self):
        e = cur()
        pc = self.popcount()
        # fork on the population count (first: empty or not, the common question)
        if e.decide(self.z == 0):
            return 0
        return e.concretize(pc)

    def __bool__(self):
        return not cur().decide(self.z == 0)

    def concrete(self) -> frozenset:
        v = cur().concretize(self.z)
        return frozenset(i for i in range(self._n()) if (v >> i) & 1)

    def __iter__(self):
        # CPython's real iteration order of the real frozenset
        return iter(self.concrete())

    def __hash__(self):
        return 0  # all symbolic sets collide: dict/set lookups fall through to __eq__, which forks

    def __repr__(self):
        return f"SymSet({z3.simplify(self.z)})"


def _zs(o, n):
    if isinstance(o, SymSet):
        return o.z
    v = 0
    for i in o:
        v |= 1 << int(i)
    return z3.BitVecVal(v, n)


class SymFrozensetFactory:
    """stand-in for the builtin name `frozenset` inside cirkit.utils.scope"""

    def __init__(self, nbits):
        self.nbits = nbits

    def __call__(self, it=()):
        if isinstance(it, SymSet):
            return it
        items = list(it)
        return SymSet.of(items, self.nbits)


class patched_scope:
    """context manager: rebind `frozenset` in cirkit.utils.scope"""

    def __init__(self, nbits):
        self.f = SymFrozensetFactory(nbits)

    def __enter__(self):
        import cirkit.utils.scope as S

        self.S = S
        self.had = "frozenset" in S.__dict__
        self.old = S.__dict__.get("frozenset")
        S.frozenset = self.f
        return self.f

    def __exit__(self, *a):
        if self.had:
            self.S.frozenset = self.old
        else:
            del self.S.frozenset
        return False

"""Hash-consed term algebra with SMT lowering (z3), float evaluation and symbolic differentiation.

Sorts: 'R' (real), 'I' (int), 'B' (bool).  Terms are immutable and interned: structural equality is
object identity, so `a is b` is a sound (incomplete) equality test and dict/set lookups are O(1).
"""
from __future__ import annotations

import math
from fractions import Fraction
from typing import Any, Iterable

_INTERN: dict = {}
_NEXT_ID = [0]


class Term:
    __slots__ = ("op", "args", "data", "id", "sort")

    def __init__(self, op, args, data, sort):
        self.op = op
        self.args = args
        self.data = data
        self.sort = sort
        self.id = _NEXT_ID[0]
        _NEXT_ID[0] += 1

    def __hash__(self):
        return self.id

    def __eq__(self, other):
        return self is other

    def __repr__(self):
        return show(self, 6)

    # arithmetic sugar (real/int terms)
    def __add__(self, o):
        return add(self, lift(o))

    __radd__ = __add__

    def __sub__(self, o):
        return add(self, neg(lift(o)))

    def __rsub__(self, o):
        return add(lift(o), neg(self))

    def __mul__(self, o):
        return mul(self, lift(o))

    __rmul__ = __mul__

    def __truediv__(self, o):
        return div(self, lift(o))

    def __rtruediv__(self, o):
        return div(lift(o), self)

    def __neg__(self):
        return neg(self)

    def __pow__(self, n):
        return powi(self, int(n))


def _mk(op, args, data, sort) -> Term:
    key = (op, tuple(a.id for a in args), data, sort)
    t = _INTERN.get(key)
    if t is None:
        t = Term(op, tuple(args), data, sort)
        _INTERN[key] = t
    return t


def reset_interning():
    """Drop the intern table (between independent cases, to bound memory)."""
    _INTERN.clear()
    global ZERO, ONE, TRUE, FALSE, MINUS_ONE
    ZERO = const(0)
    ONE = const(1)
    MINUS_ONE = const(-1)
    TRUE = _mk("true", (), None, "B")
    FALSE = _mk("false", (), None, "B")


def to_fraction(x) -> Fraction:
    if isinstance(x, Fraction):
        return x
    if isinstance(x, bool):
        return Fraction(int(x))
    if isinstance(x, int):
        return Fraction(x)
    if isinstance(x, float):
        if math.isnan(x) or math.isinf(x):
            raise ValueError(f"cannot lift non-finite float {x}")
        return Fraction(x)
    try:
        import numpy as np

        if isinstance(x, (np.integer,)):
            return Fraction(int(x))
        if isinstance(x, (np.floating,)):
            return to_fraction(float(x))
        if isinstance(x, np.bool_):
            return Fraction(int(x))
    except ImportError:
        pass
    raise TypeError(f"cannot lift {type(x)}")


def const(x, sort: str | None = None) -> Term:
    q = to_fraction(x)
    return _mk("const", (), q, "R")  # numeric constants are sort-less (lowering coerces)


def lift(x) -> Term:
    return x if isinstance(x, Term) else const(x)


def var(name: str, sort: str = "R") -> Term:
    return _mk("var", (), name, sort)


def atom(name: str) -> Term:
    """A strictly positive real constant symbol (E[theta], MAX shift, sqrt atom, named constant)."""
    return _mk("atom", (), name, "R")


def boolconst(b: bool) -> Term:
    return TRUE if b else FALSE


def is_const(t: Term) -> bool:
    return t.op == "const"


def cval(t: Term) -> Fraction:
    return t.data


def _coef_core(t: Term):
    """t = q * core with q rational (the constant factor of a product)."""
    if t.op == "mul" and t.args[-1].op == "const":
        rest = t.args[:-1]
        return t.args[-1].data, (rest[0] if len(rest) == 1 else _mk("mul", rest, None, t.sort))
    return Fraction(1), t


def add(*ts: Term) -> Term:
    """n-ary sum; flattens, folds constants and combines like terms (q1*c + q2*c -> (q1+q2)*c)."""
    acc: dict[Term, Fraction] = {}
    c = Fraction(0)
    stack = list(reversed(ts))
    while stack:
        t = stack.pop()
        if t.op == "const":
            c += t.data
        elif t.op == "add":
            stack.extend(reversed(t.args))
        else:
            q, core = _coef_core(t)
            acc[core] = acc.get(core, 0) + q
    flat: list[Term] = []
    for core, q in acc.items():
        if q == 0:
            continue
        flat.append(core if q == 1 else mul(core, const(q)))
    if not flat:
        return const(c)
    if c != 0:
        flat.append(const(c))
    if len(flat) == 1:
        return flat[0]
    flat.sort(key=lambda a: a.id)
    sort = "I" if all(a.sort == "I" or (a.op == "const" and a.data.denominator == 1) for a in flat) else "R"
    return _mk("add", flat, None, sort)


def neg(t: Term) -> Term:
    return mul(MINUS_ONE, t)


def sub(a: Term, b: Term) -> Term:
    return add(a, neg(b))


def mul(*ts: Term) -> Term:
    """n-ary product; flattens, folds constants, combines equal bases into (possibly negative) powers.
    Reciprocals are kept as div(ONE, base) with a non-product base, so that 1/(a*b) and (1/a)*(1/b)
    have the same normal form; x * (1/x) cancels (division by zero is a definedness obligation recorded
    where the division is created).  The constant factor (if any) is the LAST argument."""
    powers: dict[Term, int] = {}
    c = Fraction(1)
    stack = list(reversed(ts))
    while stack:
        t = stack.pop()
        op = t.op
        if op == "const":
            c *= t.data
            if c == 0:
                return ZERO
        elif op == "mul":
            stack.extend(reversed(t.args))
        elif op == "pow":
            powers[t.args[0]] = powers.get(t.args[0], 0) + t.data
        elif op == "div" and t.args[0] is ONE:
            d = t.args[1]
            if d.op == "pow":
                powers[d.args[0]] = powers.get(d.args[0], 0) - d.data
            else:
                powers[d] = powers.get(d, 0) - 1
        else:
            powers[t] = powers.get(t, 0) + 1
    flat: list[Term] = []
    for base, e in powers.items():
        if e == 0:
            continue
        if e == 1:
            flat.append(base)
        elif e > 0:
            flat.append(_mk("pow", (base,), e, base.sort))
        else:
            flat.append(_mk("div", (ONE, base if e == -1 else _mk("pow", (base,), -e, base.sort)), None, "R"))
    if not flat:
        return const(c)
    flat.sort(key=lambda a: a.id)
    if c != 1:
        flat.append(const(c))
    if len(flat) == 1:
        return flat[0]
    sort = "I" if all(a.sort == "I" or (a.op == "const" and a.data.denominator == 1) for a in flat) else "R"
    return _mk("mul", flat, None, sort)


def inv(b: Term) -> Term:
    if b.op == "const":
        if b.data == 0:
            raise ZeroDivisionError("symbolic division by constant zero")
        return const(1 / b.data)
    if b.op == "mul":
        return mul(*[inv(x) for x in b.args])
    if b.op == "pow":
        return _mk("div", (ONE, b), None, "R")
    if b.op == "div" and b.args[0] is ONE:
        return b.args[1]
    if b.op == "div":
        return mul(b.args[1], inv(b.args[0]))
    return _mk("div", (ONE, b), None, "R")


def div(a: Term, b: Term) -> Term:
    if a.op == "const" and a.data == 0 and not (b.op == "const" and b.data == 0):
        return ZERO
    return mul(a, inv(b))


def powi(a: Term, n: int) -> Term:
    if n == 0:
        return ONE
    if n == 1:
        return a
    if a.op == "const":
        return const(a.data**n)
    if n < 0:
        return div(ONE, powi(a, -n))
    if a.op == "pow":
        return powi(a.args[0], a.data * n)
    return _mk("pow", (a,), n, a.sort)


def ite(c: Term, a: Term, b: Term) -> Term:
    if c is TRUE:
        return a
    if c is FALSE:
        return b
    if a is b:
        return a
    sort = a.sort if a.sort == b.sort else "R"
    return _mk("ite", (c, a, b), None, sort)


def _cmp(op, a: Term, b: Term) -> Term:
    if a.op == "const" and b.op == "const":
        x, y = a.data, b.data
        return boolconst({"lt": x < y, "le": x <= y, "eq": x == y}[op])
    if a is b:
        return boolconst(op != "lt")
    if op == "eq" and a.id > b.id:
        a, b = b, a
    return _mk(op, (a, b), None, "B")


def lt(a, b):
    return _cmp("lt", lift(a), lift(b))


def le(a, b):
    return _cmp("le", lift(a), lift(b))


def gt(a, b):
    return _cmp("lt", lift(b), lift(a))


def ge(a, b):
    return _cmp("le", lift(b), lift(a))


def eq(a, b):
    a, b = lift(a), lift(b)
    if a.sort == "B" or b.sort == "B":
        if a is b:
            return TRUE
        return _mk("iff", (a, b) if a.id < b.id else (b, a), None, "B")
    return _cmp("eq", a, b)


def not_(a: Term) -> Term:
    if a is TRUE:
        return FALSE
    if a is FALSE:
        return TRUE
    if a.op == "not":
        return a.args[0]
    return _mk("not", (a,), None, "B")


def and_(*ts: Term) -> Term:
    flat = []
    for t in ts:
        if t is FALSE:
            return FALSE
        if t is TRUE:
            continue
        if t.op == "and":
            flat.extend(t.args)
        else:
            flat.append(t)
    flat = list(dict.fromkeys(flat))
    if not flat:
        return TRUE
    if len(flat) == 1:
        return flat[0]
    flat.sort(key=lambda a: a.id)
    return _mk("and", flat, None, "B")


def or_(*ts: Term) -> Term:
    flat = []
    for t in ts:
        if t is TRUE:
            return TRUE
        if t is FALSE:
            continue
        if t.op == "or":
            flat.extend(t.args)
        else:
            flat.append(t)
    flat = list(dict.fromkeys(flat))
    if not flat:
        return FALSE
    if len(flat) == 1:
        return flat[0]
    flat.sort(key=lambda a: a.id)
    return _mk("or", flat, None, "B")


def implies(a: Term, b: Term) -> Term:
    return or_(not_(a), b)


def uf(name: str, args: Iterable[Term], sort: str = "R") -> Term:
    return _mk("uf", tuple(args), name, sort)


def toreal(a: Term) -> Term:
    return a  # ints are embedded; lowering inserts ToReal where needed


# --------------------------------------------------------------------------------------------
# traversal helpers
# --------------------------------------------------------------------------------------------


def postorder(roots: Iterable[Term]) -> list[Term]:
    seen: set[int] = set()
    out: list[Term] = []
    stack: list[tuple[Term, int]] = [(r, 0) for r in roots]
    while stack:
        t, st = stack.pop()
        if st == 0:
            if t.id in seen:
                continue
            seen.add(t.id)
            stack.append((t, 1))
            for a in t.args:
                if a.id not in seen:
                    stack.append((a, 0))
        else:
            out.append(t)
    return out


def free_symbols(roots: Iterable[Term]) -> set[Term]:
    return {t for t in postorder(roots) if t.op in ("var", "atom")}


def size(roots: Iterable[Term]) -> int:
    return len(postorder(roots))


def show(t: Term, depth: int = 4) -> str:
    if t.op == "const":
        q = t.data
        return str(q.numerator) if q.denominator == 1 else f"{q.numerator}/{q.denominator}"
    if t.op in ("var", "atom"):
        return t.data
    if t.op in ("true", "false"):
        return t.op
    if depth <= 0:
        return f"#{t.id}"
    sub_ = [show(a, depth - 1) for a in t.args]
    if t.op == "add":
        return "(" + " + ".join(sub_) + ")"
    if t.op == "mul":
        return "(" + "*".join(sub_) + ")"
    if t.op == "div":
        return f"({sub_[0]}/{sub_[1]})"
    if t.op == "pow":
        return f"{sub_[0]}^{t.data}"
    if t.op == "uf":
        return f"{t.data}({', '.join(sub_)})"
    return f"{t.op}({', '.join(sub_)})"


# --------------------------------------------------------------------------------------------
# evaluation
# --------------------------------------------------------------------------------------------


class EvalError(Exception):
    pass


def evaluate(roots: Iterable[Term], env: dict, memo: dict | None = None, exact: bool = False):
    """Evaluate terms under env: Term(var/atom) -> number.  Returns the memo (id -> value).

    `uf` terms are looked up in env too (keyed by the Term).  Floats by default; Fractions if exact.
    """
    if memo is None:
        memo = {}
    roots = [r for r in roots if r.id not in memo]
    for t in postorder(roots):
        if t.id in memo:
            continue
        op = t.op
        if op == "const":
            v = t.data if exact else float(t.data)
        elif op in ("var", "atom"):
            if t not in env:
                raise EvalError(f"unbound symbol {t.data}")
            v = env[t]
        elif op == "true":
            v = True
        elif op == "false":
            v = False
        elif op == "add":
            v = 0
            for a in t.args:
                v = v + memo[a.id]
        elif op == "mul":
            v = 1
            for a in t.args:
                v = v * memo[a.id]
        elif op == "div":
            d = memo[t.args[1].id]
            n = memo[t.args[0].id]
            if d == 0:
                v = float("nan") if n == 0 else math.copysign(float("inf"), n)
            else:
                v = n / d
        elif op == "pow":
            v = memo[t.args[0].id] ** t.data
        elif op == "ite":
            v = memo[t.args[1].id] if memo[t.args[0].id] else memo[t.args[2].id]
        elif op == "lt":
            v = memo[t.args[0].id] < memo[t.args[1].id]
        elif op == "le":
            v = memo[t.args[0].id] <= memo[t.args[1].id]
        elif op == "eq":
            v = memo[t.args[0].id] == memo[t.args[1].id]
        elif op == "iff":
            v = bool(memo[t.args[0].id]) == bool(memo[t.args[1].id])
        elif op == "not":
            v = not memo[t.args[0].id]
        elif op == "and":
            v = all(memo[a.id] for a in t.args)
        elif op == "or":
            v = any(memo[a.id] for a in t.args)
        elif op == "uf":
            if t not in env:
                raise EvalError(f"unbound uf {t.data}")
            v = env[t]
        else:
            raise EvalError(f"cannot evaluate op {op}")
        memo[t.id] = v
    return memo


def evaluate1(t: Term, env: dict, memo: dict | None = None, exact: bool = False):
    m = evaluate([t], env, memo, exact)
    return m[t.id]


# --------------------------------------------------------------------------------------------
# substitution
# --------------------------------------------------------------------------------------------


def substitute(roots: list[Term], mapping: dict[Term, Term]) -> list[Term]:
    memo: dict[int, Term] = {}
    for t in postorder(roots):
        if t in mapping:
            memo[t.id] = mapping[t]
            continue
        if not t.args:
            memo[t.id] = t
            continue
        na = [memo[a.id] for a in t.args]
        if all(x is y for x, y in zip(na, t.args)):
            memo[t.id] = t
            continue
        memo[t.id] = rebuild(t, na)
    return [memo[r.id] for r in roots]


def rebuild(t: Term, na: list[Term]) -> Term:
    op = t.op
    if op == "add":
        return add(*na)
    if op == "mul":
        return mul(*na)
    if op == "div":
        return div(*na)
    if op == "pow":
        return powi(na[0], t.data)
    if op == "ite":
        return ite(*na)
    if op in ("lt", "le", "eq"):
        return _cmp(op, *na)
    if op == "iff":
        return eq(*na)
    if op == "not":
        return not_(na[0])
    if op == "and":
        return and_(*na)
    if op == "or":
        return or_(*na)
    if op == "uf":
        return uf(t.data, na, t.sort)
    raise ValueError(op)


# --------------------------------------------------------------------------------------------
# symbolic differentiation (for C13)
# --------------------------------------------------------------------------------------------


def diff(root: Term, wrt: Term, dsym: dict[Term, Term] | None = None) -> Term:
    """d root / d wrt.  `dsym` gives derivatives of other symbols w.r.t. `wrt` (chain rule through
    atoms, e.g. d E[theta]/d theta = E[theta]); symbols not listed are independent of wrt."""
    dsym = dsym or {}
    memo: dict[int, Term] = {}
    for t in postorder([root]):
        op = t.op
        if t is wrt:
            d = ONE
        elif op in ("var", "atom"):
            d = dsym.get(t, ZERO)
        elif op == "const":
            d = ZERO
        elif op == "add":
            d = add(*[memo[a.id] for a in t.args])
        elif op == "mul":
            parts = []
            for i, a in enumerate(t.args):
                da = memo[a.id]
                if da is ZERO:
                    continue
                parts.append(mul(da, *[b for j, b in enumerate(t.args) if j != i]))
            d = add(*parts) if parts else ZERO
        elif op == "div":
            n, m = t.args
            dn, dm = memo[n.id], memo[m.id]
            if dm is ZERO:
                d = div(dn, m)
            else:
                d = div(sub(mul(dn, m), mul(n, dm)), mul(m, m))
        elif op == "pow":
            a = t.args[0]
            d = mul(const(t.data), powi(a, t.data - 1), memo[a.id])
        elif op == "ite":
            d = ite(t.args[0], memo[t.args[1].id], memo[t.args[2].id])
        elif t.sort == "B":
            d = ZERO
        else:
            raise ValueError(f"cannot differentiate {op}")
        memo[t.id] = d
    return memo[root.id]


reset_interning()

"""Shared machinery of the engine-A checks: symbolic leaves, binding of compiled tensors, tracing a
compiled circuit under the shadow engine, comparison with the reference semantics, replay."""
from __future__ import annotations

import hashlib
import itertools
import json
import math
import os
import random
import time
import traceback
from dataclasses import dataclass, field
from fractions import Fraction

import numpy as np
import torch

from cirkit.backend.torch.compiler import TorchCompiler
from cirkit.symbolic import layers as SL
from cirkit.symbolic import parameters as SP
from cirkit.symbolic.circuit import Circuit, pipeline_topological_ordering

from . import refsem
from . import terms as T
from . import vals as V
from .shadow import Shadow, TranslatorMismatch
from .smt import Query
from .vals import Unsupported, Val

torch.set_default_dtype(torch.float64)
torch.set_num_threads(1)

FLAGS = [(False, False), (True, False), (False, True), (True, True)]  # (fold, optimize)
SEMIRINGS = ["sum-product", "lse-sum", "complex-lse-sum"]


class HarnessError(Exception):
    pass


# ---------------------------------------------------------------------------------------------
# collecting the symbolic tensor parameters of a circuit (and of its pipeline operands)
# ---------------------------------------------------------------------------------------------


def circuit_leaves(sc: Circuit) -> list[SP.TensorParameter]:
    """All TensorParameter leaves read by the circuit, dereferencing references; stable order."""
    seen: dict[SP.TensorParameter, None] = {}

    def visit_layer(sl):
        for _, p in sl.params.items():
            for n in p.nodes:
                if isinstance(n, SP.ReferenceParameter):
                    seen.setdefault(n.deref(), None)
                elif isinstance(n, SP.TensorParameter):
                    seen.setdefault(n, None)
        if isinstance(sl, SL.EvidenceLayer):
            visit_layer(sl.layer)

    for sl in sc.topological_ordering():
        visit_layer(sl)
    return list(seen)


def own_leaves(sc: Circuit) -> list[SP.TensorParameter]:
    """TensorParameter nodes that the circuit itself owns (not through references)."""
    seen: dict[SP.TensorParameter, None] = {}

    def visit_layer(sl):
        for _, p in sl.params.items():
            for n in p.nodes:
                if isinstance(n, SP.TensorParameter):
                    seen.setdefault(n, None)
        if isinstance(sl, SL.EvidenceLayer):
            visit_layer(sl.layer)

    for sl in sc.layers:
        visit_layer(sl)
    return list(seen)


@dataclass
class LeafSpec:
    """How the entries of one symbolic tensor parameter are constrained/valued."""

    positive: bool = False  # assume > 0 (monotone circuits, stddev, probabilities)
    unit_interval: bool = False  # assume in (0,1)
    normalized_axis: int | None = None  # assume entries sum to one along this axis (probabilities)
    lo: float = -2.0
    hi: float = 2.0
    complex: bool = False


class SymEnv:
    """Symbolic variables for tensor parameters and inputs + their concrete valuation."""

    def __init__(self, seed: int, overrides: dict[str, float] | None = None):
        self.rng = random.Random(seed)
        self.ctx = V.Ctx()
        V.set_ctx(self.ctx)
        self.penv = refsem.ParamEnv()
        self.leaf_names: dict[SP.TensorParameter, str] = {}
        self.leaf_specs: dict[SP.TensorParameter, LeafSpec] = {}
        self.overrides = overrides or {}
        self.param_vars: list[T.Term] = []
        self.input_vars: list[T.Term] = []

    def _pick(self, spec: LeafSpec) -> float:
        # generic (non-dyadic) values: accidental exact cancellations would make the concrete run
        # disagree with the symbolic one on 0 vs. rounding noise
        if spec.unit_interval:
            return round(self.rng.uniform(0.1, 0.9), 6)
        if spec.positive:
            return round(self.rng.uniform(0.2, 1.6), 6)
        v = round(self.rng.uniform(0.15, 1.5), 6)
        return v if self.rng.random() < 0.6 else -v

    def new_param(self, p: SP.TensorParameter, spec: LeafSpec | None = None, name: str | None = None):
        if p in self.penv.leaves:
            return self.penv.leaves[p]
        spec = spec or LeafSpec()
        name = name or f"p{len(self.leaf_names)}"
        self.leaf_names[p] = name
        self.leaf_specs[p] = spec
        arr = np.empty(p.shape, dtype=object)
        ctx = self.ctx
        for idx in np.ndindex(*p.shape):
            nm = f"{name}[{','.join(map(str, idx))}]"
            val = self.overrides.get(nm, None)
            if val is None:
                val = self._pick(spec)
            v = ctx.new_var(nm, float(val))
            self.param_vars.append(v)
            if spec.complex:
                nmi = nm + ".im"
                vali = self.overrides.get(nmi, None)
                if vali is None:
                    vali = self._pick(spec)
                vi = ctx.new_var(nmi, float(vali))
                self.param_vars.append(vi)
                arr[idx] = Val("lin", v, vi)
            else:
                arr[idx] = Val("lin", v)
            if spec.unit_interval:
                ctx.assumptions.append(T.and_(T.gt(v, T.ZERO), T.lt(v, T.ONE)))
                ctx.positive_vars.add(v)
            elif spec.positive:
                ctx.assumptions.append(T.gt(v, T.ZERO))
                ctx.positive_vars.add(v)
        if spec.normalized_axis is not None:
            # renormalise the concrete valuation and assume the sums
            ax = spec.normalized_axis % len(p.shape)
            a2 = np.moveaxis(arr, ax, -1)
            for idx in np.ndindex(*a2.shape[:-1]):
                lane = a2[idx]
                tot = sum(ctx.env[v.re] for v in lane)
                # snap to exact dyadic values summing to one
                n = len(lane)
                vals_ = [ctx.env[v.re] / tot for v in lane]
                vals_ = [round(x, 6) for x in vals_]
                vals_[-1] = 1.0 - sum(vals_[:-1])
                for v, x in zip(lane[:-1], vals_[:-1]):
                    nm = v.re.data
                    ctx.env[v.re] = float(self.overrides.get(nm, x))
                # the last entry is DEFINED as 1 - sum(others): normalisation holds by construction and
                # goals that depend on it become polynomial identities
                last_var = lane[-1].re
                last = T.sub(T.ONE, T.add(*[v.re for v in lane[:-1]]))
                if last_var in self.param_vars:
                    self.param_vars.remove(last_var)
                ctx.env.pop(last_var, None)
                ctx.positive_vars.discard(last_var)
                a2[idx + (len(lane) - 1,)] = Val("lin", last)
                ctx.assumptions.append(T.and_(T.gt(last, T.ZERO), T.lt(last, T.ONE)))
                ctx.positive_terms.add(last.id)
        self.penv.leaves[p] = arr
        return arr

    def new_observation(self, p: SP.ConstantParameter, evi_layer):
        """make the content of an evidence layer's observation parameter symbolic (any value of the
        variable's domain / any real); the concrete valuation is the declared observation."""
        if p in self.penv.leaves:
            return self.penv.leaves[p]
        name = f"obs{len(self.leaf_names)}"
        self.leaf_names[p] = name
        self.leaf_specs[p] = LeafSpec()
        inner = evi_layer.layer
        n = None
        for attr in ("num_categories", "num_states"):
            if hasattr(inner, attr):
                n = getattr(inner, attr)
        if hasattr(inner, "total_count"):
            n = inner.total_count + 1
        arr = np.empty(p.shape, dtype=object)
        vals_ = np.broadcast_to(np.asarray(p.value), p.shape)
        for idx in np.ndindex(*p.shape):
            nm = f"{name}[{','.join(map(str, idx))}]"
            if n is not None:
                arr[idx] = self.new_int_input(nm, n, int(self.overrides.get(nm, vals_[idx])))
            else:
                arr[idx] = self.new_real_input(nm, float(self.overrides.get(nm, vals_[idx])))
        if not hasattr(self.penv, "symbolic_obs"):
            self.penv.symbolic_obs = set()
        self.penv.symbolic_obs.add(p)
        self.penv.leaves[p] = arr
        return arr

    def new_int_input(self, name: str, n: int, value: int | None = None) -> Val:
        val = self.overrides.get(name)
        if val is None:
            val = self.rng.randrange(n) if value is None else value
        # integer-valued input encoded as a real with a finite-domain constraint (keeps queries in QF_NRA)
        v = self.ctx.new_var(name, int(val), "R")
        self.ctx.int_domains[v] = (0, n)
        self.ctx.assumptions.append(T.or_(*[T.eq(v, T.const(k)) for k in range(n)]))
        self.input_vars.append(v)
        return Val("lin", v)

    def new_real_input(self, name: str, value: float | None = None) -> Val:
        val = self.overrides.get(name)
        if val is None:
            val = round(self.rng.uniform(-1.3, 1.3), 6) if value is None else value
        v = self.ctx.new_var(name, float(val))
        self.input_vars.append(v)
        return Val("lin", v)

    def concrete_leaf(self, p: SP.TensorParameter) -> np.ndarray:
        arr = self.penv.leaves[p]
        cplx = any(v.im is not None for v in arr.ravel())
        out = np.empty(arr.shape, dtype=np.complex128 if cplx else np.float64)
        for idx in np.ndindex(*arr.shape):
            out[idx] = arr[idx].concrete(self.ctx.env)
        return out


# ---------------------------------------------------------------------------------------------
# compile + bind
# ---------------------------------------------------------------------------------------------


class BindingViolation(Exception):
    def __init__(self, signature, detail):
        super().__init__(detail)
        self.signature = signature
        self.detail = detail


def compiled_slice(compiler: TorchCompiler, p: SP.TensorParameter) -> torch.Tensor:
    tp, fold_idx = compiler.state.retrieve_compiled_parameter(p)
    t = tp._ptensor
    if t is None:
        raise BindingViolation("param-not-allocated", f"compiled tensor of {p.shape} not allocated")
    return t.data[fold_idx]


def write_concrete(compiler: TorchCompiler, senv: SymEnv, leaves) -> dict:
    """Copy the concrete valuation into the compiled tensors (no shadow involved) and audit the
    symbolic->compiled map: every leaf registered, slices pairwise disjoint, shapes agree."""
    owner: dict[tuple, str] = {}
    info = {}
    for p in leaves:
        if p not in senv.penv.leaves or p not in senv.leaf_names:
            continue
        if not compiler.state.has_compiled_parameter(p):
            raise BindingViolation("param-unregistered", f"symbolic parameter {senv.leaf_names[p]} has no compiled tensor")
        tp, fold_idx = compiler.state.retrieve_compiled_parameter(p)
        if tp._ptensor is None:
            raise BindingViolation("param-not-allocated", f"{senv.leaf_names[p]}")
        if not (0 <= fold_idx < tp._ptensor.shape[0]):
            raise BindingViolation("param-slice-out-of-range", f"{senv.leaf_names[p]} fold {fold_idx}")
        sl = tp._ptensor.data[fold_idx]
        if tuple(sl.shape) != tuple(p.shape):
            raise BindingViolation(
                "param-slice-shape", f"{senv.leaf_names[p]}: symbolic shape {p.shape} but compiled slice {tuple(sl.shape)}"
            )
        key = (tp._ptensor.untyped_storage()._cdata, fold_idx)
        if key in owner:
            raise BindingViolation(
                "param-slice-shared", f"{senv.leaf_names[p]} and {owner[key]} map to the same compiled slice"
            )
        owner[key] = senv.leaf_names[p]
        vals_ = senv.concrete_leaf(p)
        with torch.no_grad():
            sl.copy_(torch.as_tensor(vals_, dtype=sl.dtype))
        info[senv.leaf_names[p]] = (id(tp), fold_idx)
    return info


def bind_shadows(m: Shadow, compiler: TorchCompiler, senv: SymEnv, leaves):
    for p in leaves:
        if p not in senv.leaf_names:
            continue
        sl = compiled_slice(compiler, p)
        m.bind(sl, senv.penv.leaves[p])


# ---------------------------------------------------------------------------------------------
# comparing Vals
# ---------------------------------------------------------------------------------------------


def denote(v: Val, semiring: str) -> Val:
    """the number (linear space) that an entry of a circuit output denotes in the given semiring."""
    if semiring == "sum-product":
        if v.kind != "lin":
            raise Unsupported("log-form value in a sum-product output")
        return v
    if v.kind == "log":
        return Val("lin", v.re, v.im, v.mu)
    return v.exp()


def eq_goal(impl: Val, ref: Val) -> T.Term:
    """Term stating that impl (lin or log form) denotes the same number as ref (lin form)."""
    a = impl
    if a.kind == "log":
        a = Val("lin", a.re, a.im, a.mu)
    if a.kind != "lin" or ref.kind != "lin":
        raise Unsupported(f"eq_goal on {impl.kind}/{ref.kind}")
    g, ra, rb = V.mu_split(a.mu, ref.mu)
    ta, tb = V.mu_term(ra), V.mu_term(rb)
    goal = T.eq(T.mul(a.re, ta), T.mul(ref.re, tb))
    if a.im is not None or ref.im is not None:
        ai = a.im if a.im is not None else T.ZERO
        bi = ref.im if ref.im is not None else T.ZERO
        goal = T.and_(goal, T.eq(T.mul(ai, ta), T.mul(bi, tb)))
    return goal


def val_symbols(v: Val) -> set:
    roots = [v.re] + ([v.im] if v.im is not None else []) + [k for k, _ in v.mu]
    return T.free_symbols(roots)


def expand_symbols(ctx: V.Ctx, syms: set) -> set:
    """close a symbol set under atom definitions (E[theta] mentions theta ...)."""
    out = set()
    work = list(syms)
    while work:
        s = work.pop()
        if s in out:
            continue
        out.add(s)
        d = ctx.atom_def.get(s)
        if d is None:
            continue
        if d[0] in ("exp", "sqrt") and isinstance(d[1], T.Term):
            work.extend(T.free_symbols([d[1]]))
    return out


# ---------------------------------------------------------------------------------------------
# the solver session of one case
# ---------------------------------------------------------------------------------------------


class Session:
    def __init__(self, senv: SymEnv, timeout_ms: int = 60000):
        self.senv = senv
        self.ctx = senv.ctx
        self.q = Query(timeout_ms)
        self._n_assumed = 0
        self._n_side = 0
        self.obligations = 0
        self.discharged = 0
        self.syntactic = 0
        self.by_identity = 0
        self.case_splits = 0
        self.exp_lemmas = 0
        self.inconclusive: list[str] = []
        self.cex: list[dict] = []
        self.twins = 0
        self.twin_budget = 2
        self.cvc5_checked = 0
        self.cvc5_unknown = 0
        self.cvc5_budget = 1

    def sync(self):
        a = self.ctx.assumptions
        for t in a[self._n_assumed :]:
            self.q.assume(t)
        self._n_assumed = len(a)
        s = self.ctx.side
        for t in s[self._n_side :]:
            self.q.assume(t)
        self._n_side = len(s)

    def sanity(self):
        """assumptions (and path condition) must be satisfiable, else everything is vacuous."""
        self.sync()
        r, _ = self.q.check_sat([t for t, _ in self.ctx.pc])
        if r != "sat":
            raise HarnessError(f"vacuous case: assumptions and path condition are {r}")

    def prove(self, goal: T.Term, label: str, under_pc: bool = True):
        """prove + vacuity twin: the first non-trivial equalities proved in a session are re-asked with a
        perturbed right-hand side (b + 1); the perturbed goal must NOT be provable, otherwise the
        assumptions are inconsistent or the prover proves everything (harness error, exit 3)."""
        r = self._prove(goal, label, under_pc)
        g_eq = goal if goal.op == "eq" else next((x for x in goal.args if x.op == "eq"), None) if goal.op == "and" else None
        if r == "valid" and self.twins < self.twin_budget and g_eq is not None:
            a, b = g_eq.args
            twin = T.eq(a, T.add(b, T.ONE))
            if twin is not T.FALSE:
                extra = [t for t, _ in self.ctx.pc] if under_pc else []
                if self.q.identity(twin):
                    raise HarnessError(f"vacuity twin proved by the identity stage: {label}")
                rr, _ = self.q.check_sat(extra + [T.not_(twin)])
                if rr == "unsat":
                    raise HarnessError(f"vacuity twin is valid (assumptions inconsistent or prover unsound): {label}")
            self.twins += 1
            # second solver on the same encoding (one proved obligation per session): cvc5 must not find a
            # model of the negated goal
            if self.cvc5_checked + self.cvc5_unknown < self.cvc5_budget:
                from .smt import cvc5_check

                extra = [t for t, _ in self.ctx.pc] if under_pc else []
                rc = cvc5_check(self.q.to_smt2(extra + [T.not_(goal)]), 5000)
                if rc == "unsat":
                    self.cvc5_checked += 1
                elif rc == "sat":
                    raise HarnessError(f"solver disagreement: z3 proves, cvc5 finds a model of the negation: {label}")
                else:
                    self.cvc5_unknown += 1
        return r

    def _prove(self, goal: T.Term, label: str, under_pc: bool = True):
        """returns 'valid' | 'cex' | 'unknown'; records counterexample model on cex.

        Strategy: (1) syntactic (hash-consed normal forms coincide); (2) polynomial identity by z3's
        rewriter; (3) explicit case split over the finite-domain (discrete input / drawn index)
        variables of the goal, each leaf again by (1),(2) or nlsat; (4) nlsat on the whole goal."""
        self.sync()
        self.obligations += 1
        if goal is T.TRUE:
            self.discharged += 1
            self.syntactic += 1
            return "valid"
        extra = [t for t, _ in self.ctx.pc] if under_pc else []
        if self.q.identity(goal):
            self.discharged += 1
            self.by_identity += 1
            return "valid"
        # denominators kept as POS[.] atoms: unfold their definitions (x * (1/x) then cancels in the
        # term normal form) and retry the identity stage
        gpos = self.expand_pos_atoms(goal)
        if gpos is not goal:
            if gpos is T.TRUE or self.q.identity(gpos):
                self.discharged += 1
                self.by_identity += 1
                return "valid"
            goal = gpos
        goal0 = goal
        goal = self.rewrite_sqrt_atoms(self.rewrite_exp_atoms(goal))
        if goal is not goal0:
            if goal is T.TRUE or self.q.identity(goal):
                self.discharged += 1
                self.by_identity += 1
                return "valid"
        fin = [s for s in T.free_symbols([goal]) if s in self.ctx.int_domains]
        ncomb = 1
        for s in fin:
            lo, hi = self.ctx.int_domains[s]
            ncomb *= hi - lo
        if fin and ncomb <= 729:
            fin.sort(key=lambda s: s.data)
            doms = [range(*self.ctx.int_domains[s]) for s in fin]
            all_ok = True
            for assign in itertools.product(*doms):
                mp = {s: T.const(v) for s, v in zip(fin, assign)}
                (g2,) = T.substitute([goal], mp)
                if g2 is T.TRUE:
                    continue
                if g2.op in ("le", "lt") and g2.args[0] is T.ZERO and self.ctx.is_pos(g2.args[1]):
                    continue
                self.case_splits += 1
                if self.q.identity(g2, 20000):
                    continue
                fix = [T.eq(s, T.const(v)) for s, v in zip(fin, assign)]
                r, model = self.q.check_sat(extra + fix + [T.not_(g2)])
                if r == "unsat":
                    continue
                if r == "sat":
                    return self._record_cex(goal, label, extra + fix, model)
                all_ok = False
                break
            if all_ok:
                self.discharged += 1
                return "valid"
            self.inconclusive.append(label)
            return "unknown"
        r, model = self.q.check_sat(extra + [T.not_(goal)])
        if r == "unsat":
            self.discharged += 1
            return "valid"
        if r == "sat":
            return self._record_cex(goal, label, extra, model)
        self.inconclusive.append(label)
        return "unknown"

    def expand_pos_atoms(self, goal: T.Term) -> T.Term:
        ctx = self.ctx
        for _ in range(6):
            mp = {}
            for s_ in T.free_symbols([goal]):
                d = ctx.atom_def.get(s_)
                if s_.op == "atom" and d is not None and d[0] == "pos":
                    mp[s_] = d[1]
            if not mp:
                return goal
            (goal,) = T.substitute([goal], mp)
        return goal

    def rewrite_sqrt_atoms(self, goal: T.Term) -> T.Term:
        """Square-root lemmas: for two atoms SQRT[a], SQRT[b] of the goal whose product is (guessed from
        the concrete valuation, then proved by the solver: a*b == r^2) a product r of at most two
        positive parameters, SQRT[a] is rewritten to r / SQRT[b]."""
        ctx = self.ctx
        syms = T.free_symbols([goal])
        sq = []
        for s_ in syms:
            d = ctx.atom_def.get(s_)
            if s_.op == "atom" and d is not None and d[0] == "sqrt":
                sq.append((s_, d[1], float(ctx.env[s_])))
        if len(sq) < 2:
            return goal
        sq.sort(key=lambda a: a[0].id)
        pos = sorted([v for v in syms if v.op == "var" and v in ctx.positive_vars], key=lambda v: v.id)
        cands = [(T.ONE, 1.0)] + [(p_, float(ctx.env[p_])) for p_ in pos]
        for i in range(len(pos)):
            for j in range(i, len(pos)):
                cands.append((T.mul(pos[i], pos[j]), float(ctx.env[pos[i]]) * float(ctx.env[pos[j]])))
        mapping = {}
        used = set()
        for i in range(len(sq)):
            if sq[i][0] in used:
                continue
            for j in range(i + 1, len(sq)):
                if sq[j][0] in used or sq[i][0] in used:
                    continue
                v = sq[i][2] * sq[j][2]
                for r, rv in cands:
                    if abs(v - rv) <= 1e-9 * max(1.0, abs(v)) and ctx.prove_equal(T.mul(sq[i][1], sq[j][1]), T.mul(r, r)):
                        mapping[sq[i][0]] = T.div(r, sq[j][0])
                        used.add(sq[i][0])
                        used.add(sq[j][0])
                        self.exp_lemmas += 1
                        break
        if not mapping:
            return goal
        (g2,) = T.substitute([goal], mapping)
        return g2

    def rewrite_exp_atoms(self, goal: T.Term) -> T.Term:
        """Exponent lemmas: an atom E[c] whose exponent the solver proves equal to c_a + c_b (+ c_d) for
        other atoms E[c_a], E[c_b] (, E[c_d]) occurring in the goal is rewritten to their product
        (candidates are guessed from the concrete valuation, each lemma is then proved)."""
        ctx = self.ctx
        atoms = []
        for s_ in T.free_symbols([goal]):
            d = ctx.atom_def.get(s_)
            if s_.op == "atom" and d is not None and d[0] == "exp" and d[1].op != "var":
                try:
                    atoms.append((s_, d[1], ctx.value(d[1])))
                except Exception:
                    pass
        if len(atoms) < 3:
            return goal
        atoms.sort(key=lambda a: a[0].id)
        mapping = {}
        n = len(atoms)

        def close_(x, y):
            return abs(x - y) <= 1e-9 * max(1.0, abs(x), abs(y))

        for ci in range(n):
            c_atom, c_core, c_val = atoms[ci]
            found = None
            for ai in range(n):
                if ai == ci or found:
                    continue
                for bi in range(ai, n):
                    if bi == ci:
                        continue
                    if close_(atoms[ai][2] + atoms[bi][2], c_val) and ctx.prove_equal(T.add(atoms[ai][1], atoms[bi][1]), c_core):
                        found = T.mul(atoms[ai][0], atoms[bi][0])
                        break
            if found is None and n <= 14:
                for ai in range(n):
                    if ai == ci or found:
                        continue
                    for bi in range(ai, n):
                        if bi == ci or found:
                            continue
                        for di in range(bi, n):
                            if di == ci:
                                continue
                            if close_(atoms[ai][2] + atoms[bi][2] + atoms[di][2], c_val) and ctx.prove_equal(
                                T.add(atoms[ai][1], atoms[bi][1], atoms[di][1]), c_core
                            ):
                                found = T.mul(atoms[ai][0], atoms[bi][0], atoms[di][0])
                                break
            if found is not None:
                mapping[c_atom] = found
                self.exp_lemmas += 1
        if not mapping:
            return goal
        # a rewritten atom must not occur in another atom's replacement
        for k in list(mapping):
            if any(k in T.free_symbols([v]) for kk, v in mapping.items() if kk is not k):
                del mapping[k]
        if not mapping:
            return goal
        (g2,) = T.substitute([goal], mapping)
        return g2

    def _record_cex(self, goal, label, extra, model):
        # prefer a tame model (bounded magnitudes) for replay
        syms = [s for s in T.free_symbols([goal]) | set(self.senv.param_vars) | set(self.senv.input_vars)]
        box = []
        for s in syms:
            if s.sort == "B":
                continue
            if s.op == "atom":
                box.append(T.and_(T.ge(s, T.const(Fraction(1, 64))), T.le(s, T.const(64))))
            else:
                box.append(T.and_(T.ge(s, T.const(-8)), T.le(s, T.const(8))))
        r2, model2 = self.q.check_sat(extra + [T.not_(goal)] + box)
        if r2 == "sat":
            model = model2
        allsyms = set(self.senv.param_vars) | set(self.senv.input_vars) | T.free_symbols([goal])
        env = self.q.model_env(model, allsyms)
        self.cex.append({"label": label, "env": env, "goal": goal})
        return "cex"


# ---------------------------------------------------------------------------------------------
# running a compiled circuit under the shadow engine
# ---------------------------------------------------------------------------------------------


def input_spec(sc: Circuit):
    """per variable: ('int', n) or ('real',)"""
    spec = {}
    for var in sc.scope:
        n = refsem.discrete_domain(sc, var)
        spec[var] = ("int", n) if n is not None else ("real",)
    return spec


def make_inputs(senv: SymEnv, sc_scope_spec: dict, batch: int, prefix: str = "x", width: int | None = None):
    """returns (tensor (B, D), rows: list of dict var->Val).  D = max var id + 1."""
    if not sc_scope_spec:
        return None, [dict() for _ in range(batch)]
    D = max(sc_scope_spec) + 1 if width is None else width
    any_real = any(s[0] == "real" for s in sc_scope_spec.values())
    x = torch.zeros((batch, D), dtype=torch.float64 if any_real else torch.int64)
    rows = []
    for b in range(batch):
        row = {}
        for var, s in sorted(sc_scope_spec.items()):
            if s[0] == "int":
                v = senv.new_int_input(f"{prefix}{b}_{var}", s[1])
            else:
                v = senv.new_real_input(f"{prefix}{b}_{var}")
            row[var] = v
            x[b, var] = senv.ctx.env[v.re]
        rows.append(row)
    return x, rows


def bind_inputs(m: Shadow, x: torch.Tensor, rows):
    if x is None:
        return
    for b, row in enumerate(rows):
        for var, v in row.items():
            m.bind(x[b, var], np.asarray(v, dtype=object).reshape(()))


def case_hash(obj) -> str:
    return hashlib.sha1(json.dumps(obj, sort_keys=True, default=str).encode()).hexdigest()[:12]

"""Check driver: runs the cases of one property in worker processes (killable on timeout), applies the
known-findings protocol, prints VIOLATION / KNOWN-FINDING / INCONCLUSIVE lines, writes evidence."""
from __future__ import annotations

import argparse
import importlib
import json
import multiprocessing as mp
import os
import sys
import time
import traceback

ROOT = os.path.dirname(os.path.dirname(os.path.abspath(__file__)))
EXIT_OK, EXIT_VIOLATION, EXIT_HARNESS = 0, 1, 3


def _worker(conn, modname):
    try:
        sys.path.insert(0, ROOT)
        mod = importlib.import_module(modname)
    except BaseException:  # noqa
        conn.send(("fatal", traceback.format_exc()))
        return
    conn.send(("ready", None))
    while True:
        try:
            task = conn.recv()
        except EOFError:
            return
        if task is None:
            return
        idx, desc, seed, tier = task
        t0 = time.time()
        try:
            res = mod.run_case(desc, seed, tier)
        except BaseException as e:  # noqa
            res = {"status": "error", "error": f"{type(e).__name__}: {e}", "trace": traceback.format_exc()[-3000:]}
        res["wall_s"] = time.time() - t0
        res.setdefault("case", desc)
        try:
            conn.send(("result", idx, res))
        except Exception as e:  # unpicklable payload
            conn.send(("result", idx, {"status": "error", "error": f"unpicklable result: {e}", "case": desc}))


class Pool:
    def __init__(self, modname: str, n: int):
        self.modname = modname
        self.ctx = mp.get_context("spawn")
        self.n = n
        self.workers = []

    def _spawn(self):
        a, b = self.ctx.Pipe()
        p = self.ctx.Process(target=_worker, args=(b, self.modname), daemon=True)
        p.start()
        b.close()
        return {"proc": p, "conn": a, "task": None, "t0": None, "ready": False}

    def run(self, tasks, case_timeout: float, on_result):
        pending = list(enumerate(tasks))
        pending.reverse()
        total = len(tasks)
        done = 0
        self.workers = [self._spawn() for _ in range(min(self.n, max(1, total)))]
        while done < total:
            progressed = False
            for w in list(self.workers):
                conn = w["conn"]
                try:
                    has = conn.poll(0)
                except (OSError, EOFError):
                    has = False
                if has:
                    try:
                        msg = conn.recv()
                    except (EOFError, OSError):
                        msg = ("died", None)
                    progressed = True
                    if msg[0] == "ready":
                        w["ready"] = True
                    elif msg[0] == "fatal":
                        raise RuntimeError("worker import failed:\n" + msg[1])
                    elif msg[0] == "result":
                        _, idx, res = msg
                        on_result(idx, res)
                        done += 1
                        w["task"] = None
                    elif msg[0] == "died":
                        if w["task"] is not None:
                            on_result(w["task"][0], {"status": "error", "error": "worker died", "case": w["task"][1]})
                            done += 1
                        self.workers.remove(w)
                        self.workers.append(self._spawn())
                        continue
                if w["ready"] and w["task"] is None and pending:
                    idx, t = pending.pop()
                    w["task"] = (idx, t[0])
                    w["t0"] = time.time()
                    conn.send((idx, t[0], t[1], t[2]))
                    progressed = True
                elif w["task"] is not None and time.time() - w["t0"] > case_timeout:
                    idx, desc = w["task"]
                    try:
                        w["proc"].kill()
                    except Exception:
                        pass
                    on_result(idx, {"status": "timeout", "case": desc, "wall_s": time.time() - w["t0"]})
                    done += 1
                    self.workers.remove(w)
                    self.workers.append(self._spawn())
                    progressed = True
                elif w["task"] is not None and not w["proc"].is_alive() and not conn.poll(0):
                    idx, desc = w["task"]
                    on_result(idx, {"status": "error", "error": "worker died", "case": desc})
                    done += 1
                    self.workers.remove(w)
                    self.workers.append(self._spawn())
                    progressed = True
            if not progressed:
                time.sleep(0.02)
        for w in self.workers:
            try:
                w["conn"].send(None)
            except Exception:
                pass
        for w in self.workers:
            w["proc"].join(timeout=2)
            if w["proc"].is_alive():
                w["proc"].kill()


def load_known(pid: str):
    p = os.path.join(ROOT, "known_findings.json")
    if not os.path.exists(p):
        return []
    with open(p) as f:
        data = json.load(f)
    return [e for e in data.get("findings", []) if e.get("property") == pid and e.get("status", "known") == "known"]


def match_known(known, signature: str):
    for e in known:
        if signature == e["signature"]:
            return e
    return None


def main(modname: str, argv=None):
    mod = importlib.import_module(modname)
    ap = argparse.ArgumentParser()
    ap.add_argument("--tier", default=os.environ.get("VERIF_TIER", "quick"))
    ap.add_argument("--seed", type=int, default=int(os.environ.get("VERIF_SEED", "0")))
    ap.add_argument("--replay", default=None)
    ap.add_argument("--jobs", type=int, default=int(os.environ.get("VERIF_JOBS", "16")))
    ap.add_argument("--only", default=None, help="substring filter on case descriptors (debugging)")
    ap.add_argument("--serial", action="store_true")
    args = ap.parse_args(argv)
    pid = mod.PROPERTY
    tier = "thorough" if args.tier.startswith("t") else "quick"

    if args.replay:
        with open(args.replay) as f:
            rp = json.load(f)
        ok, msg = mod.replay(rp)
        print(msg)
        if ok:
            print(f"replay: property {pid} holds on this input (not reproduced)")
            return EXIT_OK
        print(f"VIOLATION property={pid} replay={args.replay}")
        return EXIT_VIOLATION

    t0 = time.time()
    cases = list(mod.cases(tier, args.seed))
    if args.only:
        cases = [c for c in cases if args.only in json.dumps(c, sort_keys=True)]
    tasks = [(c, args.seed, tier) for c in cases]
    results: dict[int, dict] = {}

    def on_result(idx, res):
        results[idx] = res

    case_timeout = getattr(mod, "CASE_TIMEOUT", {"quick": 240, "thorough": 900})[tier]
    if args.serial:
        for i, (c, s, t) in enumerate(tasks):
            try:
                r = mod.run_case(c, s, t)
            except BaseException as e:  # noqa
                r = {"status": "error", "error": f"{type(e).__name__}: {e}", "trace": traceback.format_exc()[-3000:]}
            r.setdefault("case", c)
            results[i] = r
    else:
        Pool(modname, args.jobs).run(tasks, case_timeout, on_result)

    known = load_known(pid)
    os.makedirs(os.path.join(ROOT, "replays"), exist_ok=True)
    n_viol = 0
    n_known = 0
    n_err = 0
    seen_known = set()
    seen_viol = set()
    agg = {
        "obligations": 0,
        "discharged": 0,
        "syntactic": 0,
        "queries": 0,
        "solver_s": 0.0,
        "paths": 0,
        "inconclusive": 0,
        "refused": 0,
        "timeouts": 0,
        "ops_validated": 0,
        "cvc5_checked": 0,
        "cvc5_disagree": 0,
        "cvc5_unknown": 0,
    }
    hashes = set()
    nontrivial_hashes = set()
    samples = []
    funcs = set(getattr(mod, "ENCODED", []))
    stubs = set()
    lines = []
    slow = []
    for i in sorted(results):
        r = results[i]
        st = r.get("status")
        for k in ("obligations", "discharged", "syntactic", "queries", "paths", "refused", "ops_validated", "cvc5_checked", "cvc5_disagree", "cvc5_unknown"):
            agg[k] += int(r.get(k, 0))
        agg["solver_s"] += float(r.get("solver_s", 0.0))
        agg["twins"] = agg.get("twins", 0) + int(r.get("twins", 0))
        for s in r.get("stubs", []):
            stubs.add(s)
        h = r.get("hash")
        if h:
            hashes.add(h)
            if r.get("nontrivial"):
                nontrivial_hashes.add(h)
        if st == "error":
            n_err += 1
            lines.append(f"HARNESS-ERROR property={pid} case={json.dumps(r.get('case'), sort_keys=True)} error={r.get('error')}")
            if r.get("trace"):
                lines.append(r["trace"])
        if st == "timeout":
            agg["timeouts"] += 1
            agg["inconclusive"] += 1
            lines.append(f"INCONCLUSIVE property={pid} case={json.dumps(r.get('case'), sort_keys=True)} reason=case-timeout")
        for inc in r.get("inconclusive", []):
            agg["inconclusive"] += 1
            lines.append(f"INCONCLUSIVE property={pid} case={json.dumps(r.get('case'), sort_keys=True)} obligation={inc}")
        for v in r.get("violations", []):
            sig = v["signature"]
            e = match_known(known, sig)
            if e is not None:
                n_known += 1
                if sig not in seen_known:
                    seen_known.add(sig)
                    lines.append(f"KNOWN-FINDING: property={pid} {e.get('description', sig)} [{sig}]")
                continue
            n_viol += 1
            rp = os.path.join(ROOT, "replays", f"{pid}-{v.get('hash', 'x')}.json")
            with open(rp, "w") as f:
                json.dump(v.get("replay", {}), f, indent=1, sort_keys=True, default=str)
            if sig not in seen_viol:
                seen_viol.add(sig)
                lines.append(f"VIOLATION property={pid} replay={rp}")
                lines.append(f"  signature: {sig}")
                lines.append(f"  detail: {v.get('detail', '')[:1500]}")
        if r.get("sample") is not None and len(samples) < 6:
            samples.append(r["sample"])
        slow.append((round(float(r.get("wall_s", 0.0)), 1), json.dumps(r.get("case"), sort_keys=True, default=str)[:300]))

    for l in lines:
        print(l)
    wall = time.time() - t0
    level = mod.LEVEL
    cov = {
        "evaluations": len(results),
        "distinct_nontrivial": len(nontrivial_hashes),
        "rule": getattr(mod, "RULE", ""),
        "samples": samples if samples else [{"note": "no case produced a sample"}],
        "obligations": agg["obligations"],
        "discharged": agg["discharged"],
        "discharged_syntactically": agg["syntactic"],
        "inconclusive": agg["inconclusive"],
        "solver_queries": agg["queries"],
        "solver_time_s": round(agg["solver_s"], 3),
        "paths_explored": agg["paths"],
        "refused_cases": agg["refused"],
        "case_timeouts": agg["timeouts"],
        "ops_translator_validated": agg["ops_validated"],
        "cvc5_crosschecked": agg["cvc5_checked"],
        "cvc5_disagreements": agg["cvc5_disagree"],
        "cvc5_undecided": agg["cvc5_unknown"],
        "functions_encoded": sorted(funcs),
        "bounds": getattr(mod, "BOUNDS", ""),
        "outside_claim": getattr(mod, "OUTSIDE", ""),
        "stubs": sorted(stubs),
        "known_findings_seen": sorted(seen_known),
        "harness_errors": n_err,
        "checker_cmd": f"bin/check {pid} --tier {tier}",
        "trusted_base": ["z3", "cvf term algebra + lowering", "aten handlers (validated per op)", "refsem", "stub contracts"],
        "programs": len(hashes),
        "disagreements_checked": n_viol + n_known,
        "explanation": getattr(mod, "EXPLANATION", ""),
        "exhaustive": False,
        "vacuity_twins_refuted": agg.get("twins", 0),
        "slowest_cases": [{"wall_s": w, "case": c} for w, c in sorted(slow, reverse=True)[:8]],
        "states": max(1, agg["paths"]),
        "transitions": max(1, agg["queries"]),
        "traces_validated_against_impl": n_viol + n_known + agg["inconclusive"],
    }
    ev = {
        "property_id": pid,
        "tier": tier,
        "seed": args.seed,
        "level": level,
        "coverage": cov,
        "assumptions": list(getattr(mod, "ASSUMPTIONS", [])),
        "wall_s": round(wall, 2),
        "violations": n_viol,
    }
    os.makedirs(os.path.join(ROOT, "evidence"), exist_ok=True)
    with open(os.path.join(ROOT, "evidence", f"{pid}.json"), "w") as f:
        json.dump(ev, f, indent=1, sort_keys=True, default=str)
    print(
        f"{pid} {tier}: cases={len(results)} obligations={agg['obligations']} discharged={agg['discharged']} "
        f"(syntactic {agg['syntactic']}) inconclusive={agg['inconclusive']} violations={n_viol} known={n_known} "
        f"errors={n_err} solver={agg['solver_s']:.1f}s wall={wall:.1f}s"
    )
    if n_viol:
        return EXIT_VIOLATION
    if n_err:
        return EXIT_HARNESS
    return EXIT_OK

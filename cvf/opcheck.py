"""Oracles for the symbolic operators: what integrate / multiply / differentiate / evidence /
conjugate / concatenate are *supposed* to denote, defined from the operand's reference semantics
(never from the operator's own output circuit)."""
from __future__ import annotations

import itertools

import numpy as np

from cirkit.symbolic import layers as SL
from cirkit.symbolic.circuit import Circuit, CircuitOperator

from . import refsem
from . import terms as T
from . import vals as V
from .vals import Unsupported, Val


def _layerwise_integral(sc: Circuit, zvars: set, y: dict, penv) -> list:
    """integral over zvars by the smooth+decomposable theorem, with the closed-form integral of each
    input layer (sum over states for discrete layers; trusted axiom: a normalised Gaussian integrates
    to 1, an unnormalised one to exp(log_partition))."""
    vals = {}
    for sl in sc.topological_ordering():
        ins = [vals[i] for i in sc.layer_inputs(sl)]
        if isinstance(sl, SL.InputLayer) and not isinstance(sl, (SL.ConstantLayer,)) and set(sl.scope) & zvars:
            K = sl.num_output_units
            out = np.empty((K,), dtype=object)
            if isinstance(sl, SL.GaussianLayer):
                lp = refsem.eval_parameter(sl.log_partition, penv) if sl.log_partition is not None else None
                for k in range(K):
                    out[k] = Val.const(1.0) if lp is None else lp[k].exp()
            else:
                n = refsem.discrete_domain(sc, next(iter(sl.scope)))
                if n is None:
                    raise Unsupported(f"no closed-form integral for {type(sl).__name__}")
                (var,) = tuple(sl.scope)
                acc = None
                for s in range(n):
                    x = dict(y)
                    x[var] = Val.const(s)
                    v = refsem.eval_input_layer(sl, x, penv)
                    acc = v if acc is None else acc + v
                out = acc
            vals[sl] = out
            continue
        if isinstance(sl, SL.InputLayer):
            vals[sl] = refsem.eval_input_layer(sl, y, penv)
        elif isinstance(sl, SL.SumLayer):
            w = refsem.eval_parameter(sl.weight, penv)
            cat = np.concatenate(ins)
            v = np.empty((sl.num_output_units,), dtype=object)
            for o in range(sl.num_output_units):
                acc = None
                for i in range(cat.shape[0]):
                    t = w[o, i] * cat[i]
                    acc = t if acc is None else acc + t
                v[o] = acc
            vals[sl] = v
        elif isinstance(sl, SL.HadamardLayer):
            v = ins[0]
            for a in ins[1:]:
                v = v * a
            vals[sl] = v
        elif isinstance(sl, SL.KroneckerLayer):
            v = ins[0]
            for a in ins[1:]:
                v = np.asarray([p * q for p in v for q in a], dtype=object)
            vals[sl] = v
        else:
            raise Unsupported(type(sl).__name__)
    return [vals[o] for o in sc.outputs]


class Denotation:
    """Denotation of an operator pipeline, defined recursively from the base circuit's refsem."""

    def __init__(self, desc: dict, derived: Circuit, penv, brute_force_limit: int = 81):
        self.penv = penv
        self.limit = brute_force_limit
        ops = desc["ops"] if desc.get("kind") == "pipe" else []
        chain = []
        cur = derived
        for op in reversed(ops):
            if cur.operation is None:
                raise Unsupported("operation chain shorter than descriptor")
            chain.append((op, cur))
            if op[0] == "concat" and len(op) > 2 and op[2] == "last":
                cur = cur.operation.operands[-1]
            else:
                cur = cur.operation.operands[0]
        self.base = cur
        self.chain = list(reversed(chain))  # [(op, circuit after op)]

    def circuit_before(self, level: int) -> Circuit:
        return self.base if level == 0 else self.chain[level - 1][1]

    def eval(self, x: dict, level: int | None = None) -> list:
        if level is None:
            level = len(self.chain)
        if level == 0:
            return refsem.eval_circuit(self.base, x, self.penv)
        op, after = self.chain[level - 1]
        before = self.circuit_before(level - 1)
        name = op[0]
        if name == "integrate":
            z = sorted(before.scope) if len(op) < 2 or op[1] is None else sorted(op[1])
            doms = [refsem.discrete_domain(before_base(self, level - 1), v) for v in z]
            if all(d is not None for d in doms) and int(np.prod(doms)) <= self.limit:
                total = None
                for assign in itertools.product(*[range(d) for d in doms]):
                    xx = dict(x)
                    for v, a in zip(z, assign):
                        xx[v] = Val.const(a)
                    outs = self.eval(xx, level - 1)
                    total = outs if total is None else [t + o for t, o in zip(total, outs)]
                return total
            if level - 1 == 0:
                return _layerwise_integral(self.base, set(z), x, self.penv)
            # continuous variables of a derived circuit: integrate the derived symbolic circuit layerwise
            return _layerwise_integral(before, set(z), x, self.penv)
        if name in ("square", "multiply_other", "multiply_conj"):
            a = self.eval(x, level - 1)
            if name == "square":
                b = a
            elif name == "multiply_conj":
                b = [np.frompyfunc(lambda v: v.conjugate(), 1, 1)(o) for o in a]
            else:
                other = after.operation.operands[1]
                b = refsem.eval_circuit(other, x, self.penv)
            outs = []
            for oa in a:
                for ob in b:
                    outs.append(np.asarray([p * q for p in oa for q in ob], dtype=object))
            return outs
        if name == "differentiate":
            order = op[1] if len(op) > 1 else 1
            outs = self.eval(x, level - 1)
            res = []
            for oi, o in enumerate(outs):
                # the partial derivatives of an output are taken w.r.t. the variables of THAT output
                for v in sorted(before.layer_scope(before.outputs[oi])):
                    xv = x[v]
                    if xv.re.op != "var":
                        raise Unsupported("differentiate oracle needs symbolic real inputs")
                    res.append(np.asarray([_diff(u, xv.re, order) for u in o], dtype=object))
                res.append(o)
            return res
        if name == "evidence":
            xx = dict(x)
            for k, val in (op[1] if isinstance(op[1], list) else op[1].items()):
                xx[int(k)] = Val.const(val)
            # symbolic observations (if the harness made the observation parameters symbolic): the
            # "given values" are then the symbols bound to the evidence layers of the result circuit
            for sl in after.layers:
                if isinstance(sl, SL.EvidenceLayer):
                    for n in sl.observation.nodes:
                        if n in self.penv.leaves and type(n).__name__ == "ConstantParameter" and n in getattr(self.penv, "symbolic_obs", ()):
                            for var, o in zip(sorted(sl.layer.scope), self.penv.leaves[n]):
                                xx[var] = o
            return self.eval(xx, level - 1)
        if name == "conjugate":
            outs = self.eval(x, level - 1)
            return [np.frompyfunc(lambda v: v.conjugate(), 1, 1)(o) for o in outs]
        if name == "concatenate":
            outs = self.eval(x, level - 1)
            return outs * (op[1] if len(op) > 1 else 2)
        if name == "concat":
            mine = self.eval(x, level - 1)
            operands = list(after.operation.operands)
            last = len(op) > 2 and op[2] == "last"
            others_c = operands[:-1] if last else operands[1:]
            others = []
            for dd, oc in zip(op[1], others_c):
                others.extend(Denotation(dd, oc, self.penv, self.limit).eval(x))
            return others + mine if last else mine + others
        raise Unsupported(name)


def before_base(den: Denotation, level: int) -> Circuit:
    """a circuit whose input layers tell the domain of the variables at that level."""
    return den.circuit_before(level)


def _diff(u: Val, x: T.Term, order: int) -> Val:
    if u.kind != "lin":
        raise Unsupported("diff of non-lin")
    re = u.full_re()
    im = u.full_im() if u.im is not None else None
    for _ in range(order):
        re = T.diff(re, x)
        if im is not None:
            im = T.diff(im, x)
    return Val("lin", re, im)


def pipe_oracle(desc, derived: Circuit, senv, rows):
    den = Denotation(desc, derived, senv.penv)
    return [den.eval(row) for row in rows]

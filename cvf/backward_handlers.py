"""Shadow handlers for the ATen ops that only appear in autograd's backward pass (C13)."""
from __future__ import annotations

import numpy as np
import torch

from .shadow import MOVE_OPS, Shadow, handler
from .vals import Unsupported, Val

# zeros with the gradient written into one slice / index: pure data movement with fill 0
MOVE_OPS.update(
    {
        "aten.select_backward.default": ((0,), None),
        "aten.slice_backward.default": ((0,), None),
        "aten.diagonal_backward.default": ((0,), None),
        "aten.unfold_backward.default": ((0,), None),
    }
)

_IP_SPEC = MOVE_OPS.pop("aten.index_put.default")
MOVE_OPS.pop("aten.index_put_.default")


@handler("aten.index_put.default", "aten.index_put_.default")
def h_index_put(m: Shadow, func, args, kwargs, out):
    self_t, indices, values = args[0], args[1], args[2]
    accumulate = args[3] if len(args) > 3 else kwargs.get("accumulate", False)
    if not accumulate:
        return m._moved(func, args, kwargs, _IP_SPEC, out)
    for ix in indices:
        if ix is not None and m.has(ix):
            raise Unsupported("index_put(accumulate) with a symbolic index")
    base = m.arr(self_t).copy()
    flat = base.reshape(-1)
    addr = torch.arange(self_t.numel(), dtype=torch.int64).reshape(tuple(self_t.shape))
    dest = addr[tuple(slice(None) if ix is None else ix for ix in indices)]
    vals = np.broadcast_to(m.arr(values), tuple(dest.shape))
    for d_, v in zip(dest.reshape(-1).tolist(), vals.reshape(-1)):
        flat[d_] = flat[d_] + v
    return flat.reshape(base.shape)


def _sum_along(a, d):
    return np.frompyfunc(lambda x, y: x + y, 2, 1).reduce(a, axis=d, keepdims=True)


@handler("aten._softmax_backward_data.default")
def h_softmax_bwd(m, func, args, kwargs, out):
    g, y = m.arr(args[0]), m.arr(args[1])
    d = args[2] % y.ndim
    gy = g * y
    return np.asarray(gy - y * _sum_along(gy, d), dtype=object)


@handler("aten._log_softmax_backward_data.default")
def h_log_softmax_bwd(m, func, args, kwargs, out):
    g, y = m.arr(args[0]), m.arr(args[1])
    d = args[2] % y.ndim
    ey = np.frompyfunc(lambda v: v.exp(), 1, 1)(y)
    return np.asarray(g - ey * _sum_along(g, d), dtype=object)


@handler("aten.cumprod.default")
def h_cumprod(m, func, args, kwargs, out):
    a = m.arr(args[0])
    d = args[1] % a.ndim
    return np.frompyfunc(lambda x, y: x * y, 2, 1).accumulate(a, axis=d)


@handler("aten.sigmoid_backward.default")
def h_sigmoid_bwd(m, func, args, kwargs, out):
    g, y = m.arr(args[0]), m.arr(args[1])
    return np.asarray(g * y * (Val.const(1.0) - y), dtype=object)


@handler("aten.tanh_backward.default")
def h_tanh_bwd(m, func, args, kwargs, out):
    g, y = m.arr(args[0]), m.arr(args[1])
    return np.asarray(g * (Val.const(1.0) - y * y), dtype=object)

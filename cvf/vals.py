"""Scalar value domain used by the shadow engine and by the reference semantics.

A scalar is
    Lin(re, im, mu)  = (re + i*im) * [[mu]]
    Log(re, im, mu)  = log((re + i*im) * [[mu]])        (principal branch; real if im is None)
    Bool(re)         = a boolean term
where re/im are Terms and mu is a monomial of strictly positive atoms (atom -> integer exponent).
Transcendentals never reach the solver: exp/log move between the two forms, exponentials of linear
expressions become monomials of atoms E[.], numerically-stabilising maxima become atoms MAX#k whose
exponential cancels syntactically in mu.
"""
from __future__ import annotations

import math
from fractions import Fraction

from . import terms as T
from .terms import Term

LOG_SQRT_2PI = math.log(math.sqrt(2 * math.pi))
LOG_2 = math.log(2.0)


class Unsupported(Exception):
    """The shadow algebra cannot represent the result (never silently concretised)."""


class Ctx:
    """Per-case context: concrete valuation, atom definitions, obligations, path condition."""

    def __init__(self):
        self.env: dict[Term, float] = {}
        self.atom_def: dict[Term, tuple] = {}
        self.side: list[Term] = []  # side constraints defining atoms (always asserted)
        self.obligations: list[tuple[Term, str]] = []  # definedness obligations (arg of log > 0 ...)
        self.pc: list[tuple[Term, str]] = []  # path condition (term that was true on this run)
        self.assumptions: list[Term] = []
        self._E: dict[int, Term] = {}
        self._E_list: list = []
        self._sqrt_list: list = []
        self._lemma_q = None
        self._lemma_n = 0
        self._lemma_ns = 0
        self.merged_atoms = 0
        self.lemma_queries = 0
        self._sqrt: dict[int, Term] = {}
        self._pos: dict[int, Term] = {}
        self._sm: dict[tuple, list] = {}
        self._sm_vars: dict[tuple, list] = {}
        self.disable_softmax_abstraction = False
        self._pos_memo: dict[int, bool] = {}
        self.positive_terms: set = set()  # ids of compound terms assumed positive (e.g. 1 - sum of simplex atoms)
        self.positive_vars: set = set()
        self._max: dict[tuple, Term] = {}
        self._opq: dict[tuple, Term] = {}
        self._fresh = 0
        self.stubs_used: dict[str, int] = {}
        self.int_domains: dict[Term, tuple[int, int]] = {}

    # --- symbols -----------------------------------------------------------------------------
    def new_var(self, name: str, value, sort: str = "R") -> Term:
        v = T.var(name, sort)
        self.env[v] = value
        return v

    def fresh_name(self, prefix: str) -> str:
        self._fresh += 1
        return f"{prefix}#{self._fresh}"

    def value(self, t: Term):
        return T.evaluate1(t, self.env)

    def E(self, core: Term) -> Term:
        """Atom for exp(core)."""
        a = self._E.get(core.id)
        if a is None:
            cv = self.value(core)
            if core.op != "var":
                # atom merging: a syntactically different exponent that the solver proves equal to an
                # existing one (guessed from the concrete valuation, then proved) shares its atom
                for c2, a2, v2 in self._E_list:
                    if c2.op != "var" and abs(cv - v2) <= 1e-9 * max(1.0, abs(cv)) and self.prove_equal(core, c2):
                        self._E[core.id] = a2
                        self.merged_atoms += 1
                        return a2
            a = T.atom(f"E[{T.show(core, 3)}]" if core.op == "var" else f"E[#{core.id}]")
            self._E[core.id] = a
            self._E_list.append((core, a, cv))
            self.atom_def[a] = ("exp", core)
            try:
                self.env[a] = math.exp(cv)
            except OverflowError:
                self.env[a] = float("inf")
        return a

    def prove_equal(self, t1: Term, t2: Term) -> bool:
        """valid(assumptions => t1 == t2), decided by the solver (small lemma queries)."""
        from .smt import Query

        if self._lemma_q is None:
            self._lemma_q = Query(timeout_ms=10000)
            self._lemma_n = 0
        q = self._lemma_q
        for t in self.assumptions[self._lemma_n :]:
            q.assume(t)
        self._lemma_n = len(self.assumptions)
        for t in self.side[self._lemma_ns :]:
            q.assume(t)
        self._lemma_ns = len(self.side)
        if q.identity(T.eq(t1, t2), 5000):
            self.lemma_queries += 1
            return True
        r, _ = q.valid(T.eq(t1, t2))
        self.lemma_queries += 1
        return r == "valid"

    def named_const_atom(self, name: str, value: float) -> Term:
        a = T.atom(name)
        if a not in self.env:
            self.env[a] = value
            self.atom_def[a] = ("const", value)
        return a

    def sqrt_atom(self, t: Term) -> Term:
        a = self._sqrt.get(t.id)
        if a is None:
            v = self.value(t)
            for t2, a2, v2 in self._sqrt_list:
                if abs(v - v2) <= 1e-9 * max(1.0, abs(v)) and self.prove_equal(t, t2):
                    self._sqrt[t.id] = a2
                    self.merged_atoms += 1
                    return a2
            a = T.atom(f"SQRT[#{t.id}]")
            self._sqrt[t.id] = a
            self._sqrt_list.append((t, a, v))
            self.atom_def[a] = ("sqrt", t)
            self.env[a] = math.sqrt(v) if v >= 0 else float("nan")
            self.side.append(T.eq(T.mul(a, a), t))
        return a

    def is_pos(self, t: Term) -> bool:
        """cheap syntactic positivity (atoms, variables assumed positive, sums/products/quotients/ites)."""
        memo = self._pos_memo
        for n in T.postorder([t]):
            if n.id in memo:
                continue
            if n.id in self.positive_terms:
                memo[n.id] = True
                continue
            op = n.op
            if op == "const":
                r = n.data > 0
            elif op == "atom":
                r = True
            elif op == "var":
                r = n in self.positive_vars
            elif op in ("add", "mul"):
                r = all(memo[a.id] for a in n.args)
            elif op == "div":
                r = memo[n.args[0].id] and memo[n.args[1].id]
            elif op == "pow":
                r = memo[n.args[0].id]
            elif op == "ite":
                r = memo[n.args[1].id] and memo[n.args[2].id]
            else:
                r = False
            memo[n.id] = r
        return memo[t.id]

    def pos_atom(self, t: Term) -> Term:
        a = self._pos.get(t.id)
        if a is None:
            a = T.atom(f"POS[#{t.id}]")
            self._pos[t.id] = a
            self.atom_def[a] = ("pos", t)
            self.env[a] = self.value(t)
            self.side.append(T.eq(a, t))
        return a

    def max_atom(self, key: tuple, value: float) -> Term:
        """A real symbol standing for a maximum taken for numerical stabilisation, identified by the
        ids of the values it was taken over.  It is a *variable* (may be negative); its exponential
        is the atom E[MAX#k]."""
        v = self._max.get(key)
        if v is None:
            v = T.var(f"MAX#{len(self._max)}", "R")
            self._max[key] = v
            self.env[v] = value
            self.atom_def[v] = ("max", key)
        return v

    def opaque(self, kind: str, key: tuple, value, positive: bool = False, sort: str = "R") -> Term:
        k = (kind, key)
        v = self._opq.get(k)
        if v is None:
            name = f"{kind}#{len(self._opq)}"
            v = T.atom(name) if positive else T.var(name, sort)
            self._opq[k] = v
            self.env[v] = value
            self.atom_def[v] = (kind, key)
        return v


CTX = Ctx()


def set_ctx(c: Ctx):
    global CTX
    CTX = c


def ctx() -> Ctx:
    return CTX


# ---------------------------------------------------------------------------------------------
# monomials: tuple of (atom Term, int exp) sorted by atom id
# ---------------------------------------------------------------------------------------------

EMPTY = ()


def mu_mul(a: tuple, b: tuple) -> tuple:
    if not a:
        return b
    if not b:
        return a
    d = dict(a)
    for k, e in b:
        ne = d.get(k, 0) + e
        if ne:
            d[k] = ne
        else:
            d.pop(k, None)
    return tuple(sorted(d.items(), key=lambda kv: kv[0].id))


def mu_pow(a: tuple, n: int) -> tuple:
    if n == 0 or not a:
        return EMPTY
    return tuple((k, e * n) for k, e in a)


def mu_term(a: tuple) -> Term:
    if not a:
        return T.ONE
    num = [T.powi(k, e) for k, e in a if e > 0]
    den = [T.powi(k, -e) for k, e in a if e < 0]
    n = T.mul(*num) if num else T.ONE
    if den:
        return T.div(n, T.mul(*den))
    return n


def mu_split(a: tuple, b: tuple):
    """common part g (min exponents on shared atoms with same sign) and remainders a/g, b/g."""
    da, db = dict(a), dict(b)
    g = {}
    for k, e in da.items():
        f = db.get(k)
        if f is None:
            continue
        if e > 0 and f > 0:
            g[k] = min(e, f)
        elif e < 0 and f < 0:
            g[k] = max(e, f)
    gt = tuple(sorted(g.items(), key=lambda kv: kv[0].id))
    gi = mu_pow(gt, -1)
    return gt, mu_mul(a, gi), mu_mul(b, gi)


# ---------------------------------------------------------------------------------------------
# Val
# ---------------------------------------------------------------------------------------------


class Val:
    __slots__ = ("kind", "re", "im", "mu")

    def __init__(self, kind: str, re: Term, im: Term | None = None, mu: tuple = EMPTY):
        self.kind = kind
        self.re = re
        self.im = im
        self.mu = mu

    # -- constructors
    @staticmethod
    def const(x) -> "Val":
        if isinstance(x, Val):
            return x
        if isinstance(x, Term):
            return Val("bool" if x.sort == "B" else "lin", x)
        if isinstance(x, (bool,)) or type(x).__name__ == "bool_":
            return Val("bool", T.boolconst(bool(x)))
        if isinstance(x, complex) or type(x).__name__.startswith("complex"):
            x = complex(x)
            return Val("lin", T.const(x.real), T.const(x.imag))
        if isinstance(x, int) or type(x).__name__.startswith(("int", "uint")):
            return Val("lin", T.const(int(x)))
        xf = float(x)
        if math.isinf(xf) and xf < 0:
            return Val("log", T.ZERO)  # -inf = log 0
        return Val("lin", T.const(xf))

    @property
    def is_complex(self):
        return self.im is not None

    def key(self):
        return (self.kind, self.re.id, None if self.im is None else self.im.id, tuple((k.id, e) for k, e in self.mu))

    def __repr__(self):
        s = T.show(self.re, 4)
        if self.im is not None:
            s += " + i*" + T.show(self.im, 4)
        if self.mu:
            s = f"({s})*" + T.show(mu_term(self.mu), 3)
        return f"{self.kind}<{s}>"

    # -- helpers
    def full_re(self) -> Term:
        """re * [[mu]] as a single Term."""
        return T.mul(self.re, mu_term(self.mu)) if self.mu else self.re

    def full_im(self) -> Term:
        if self.im is None:
            return T.ZERO
        return T.mul(self.im, mu_term(self.mu)) if self.mu else self.im

    def folded(self) -> "Val":
        if not self.mu:
            return self
        return Val(self.kind, self.full_re(), None if self.im is None else self.full_im())

    def _need(self, kind):
        if self.kind != kind:
            raise Unsupported(f"expected {kind} value, got {self.kind}")

    # -- arithmetic
    def __add__(self, o):
        if getattr(o, "kind", None) == "cyc":
            return NotImplemented
        o = Val.const(o)
        a, b = self, o
        # booleans used as numbers (mask.sum() in the backward of amax): True = 1, False = 0
        if a.kind == "bool":
            a = Val.where(a, Val.const(1), Val.const(0))
        if b.kind == "bool":
            b = Val.where(b, Val.const(1), Val.const(0))
        if a.kind == "lin" and b.kind == "lin":
            return _lin_add(a, b)
        if a.kind == "log" and b.kind == "log":
            return _P_mul(a, b, "log")
        if a.kind == "log" and b.kind == "lin":
            return _log_shift(a, b)
        if a.kind == "lin" and b.kind == "log":
            return _log_shift(b, a)
        raise Unsupported(f"add {a.kind} {b.kind}")

    __radd__ = __add__

    def __neg__(self):
        if self.kind == "lin":
            return Val("lin", T.neg(self.re), None if self.im is None else T.neg(self.im), self.mu)
        if self.kind == "log":
            return _P_inv(self)
        raise Unsupported("neg bool")

    def __sub__(self, o):
        o = Val.const(o)
        return self + (-o)

    def __rsub__(self, o):
        return Val.const(o) - self

    def __mul__(self, o):
        if getattr(o, "kind", None) == "cyc":
            return NotImplemented
        o = Val.const(o)
        a, b = self, o
        if a.kind == "lin" and b.kind == "lin":
            return _P_mul(a, b, "lin")
        if a.kind == "log" and b.kind == "lin":
            return _log_scale(a, b)
        if a.kind == "lin" and b.kind == "log":
            return _log_scale(b, a)
        if a.kind == "bool" and b.kind == "lin":
            return Val.where(a, b, Val.const(0.0))
        if a.kind == "lin" and b.kind == "bool":
            return Val.where(b, a, Val.const(0.0))
        raise Unsupported(f"mul {a.kind} {b.kind}")

    __rmul__ = __mul__

    def __truediv__(self, o):
        o = Val.const(o)
        if o.kind == "bool":
            o = Val.where(o, Val.const(1), Val.const(0))
        if self.kind == "bool":
            return Val.where(self, Val.const(1), Val.const(0)) / o
        if self.kind == "lin" and o.kind == "lin":
            return _P_mul(self, _P_inv(o), "lin")
        if self.kind == "log" and o.kind == "lin":
            return _log_scale(self, _P_inv(o))
        raise Unsupported(f"div {self.kind} {o.kind}")

    def __rtruediv__(self, o):
        return Val.const(o) / self

    def __pow__(self, n):
        if isinstance(n, Val):
            if n.kind == "lin" and n.im is None and not n.mu and n.re.op == "const":
                n = n.re.data
            else:
                raise Unsupported("pow with symbolic exponent")
        n = Fraction(n).limit_denominator(1 << 20) if not isinstance(n, (int, Fraction)) else Fraction(n)
        if self.kind == "log":
            return _log_scale(self, Val.const(float(n)) if n.denominator != 1 else Val.const(int(n)))
        self._need("lin")
        if n.denominator == 1:
            n = int(n)
            if self.im is not None:
                if n < 0:
                    return _P_inv(self) ** (-n)
                r = Val("lin", T.ONE)
                for _ in range(n):
                    r = r * self
                return r
            fac, mu = _sqrt_norm(mu_pow(self.mu, n))
            return Val("lin", T.mul(T.powi(self.re, n), fac), None, mu)
        if n.denominator == 2 and self.im is None:
            return self.sqrt() ** n.numerator
        raise Unsupported(f"pow {n}")

    def reciprocal(self):
        self._need("lin")
        return _P_inv(self)

    def square(self):
        return self * self

    def sqrt(self):
        self._need("lin")
        if self.im is not None:
            raise Unsupported("complex sqrt")
        t = self.re
        half: dict = {}
        odd = []
        for k, e in self.mu:
            d = CTX.atom_def.get(k)
            if e % 2 == 0:
                half[k] = half.get(k, 0) + e // 2
            elif d is not None and d[0] == "exp":
                # sqrt(E[c]^e) = E[c/2]^e
                h = CTX.E(T.mul(d[1], T.const(Fraction(1, 2))))
                half[h] = half.get(h, 0) + e
            else:
                odd.append((k, e))
        if odd:
            t = T.mul(t, mu_term(tuple(odd)))
        mu = tuple(sorted(((k, e) for k, e in half.items() if e), key=lambda kv: kv[0].id))
        if t.op == "const":
            q = t.data
            if q < 0:
                raise Unsupported("sqrt of negative constant")
            rn, rd = math.isqrt(q.numerator), math.isqrt(q.denominator)
            if rn * rn == q.numerator and rd * rd == q.denominator:
                return Val("lin", T.const(Fraction(rn, rd)), None, mu)
        # factor perfect-square structure: sqrt(a^2k) etc. is left to the solver via the atom
        s = CTX.sqrt_atom(t)
        CTX.obligations.append((T.ge(t, T.ZERO), "sqrt argument >= 0"))
        return Val("lin", T.ONE, None, mu_mul(mu, ((s, 1),)))

    def exp(self):
        if self.kind == "log":
            return Val("lin", self.re, self.im, self.mu)
        self._need("lin")
        if self.im is not None:
            if self.im is T.ZERO:
                c, mu = exp_of_term(self.full_re())
                return Val("lin", c, T.ZERO, mu)
            raise Unsupported("exp of complex lin value")
        c, mu = exp_of_term(self.full_re())
        return Val("lin", c, None, mu)

    def log(self):
        self._need("lin")
        if self.im is None:
            CTX.obligations.append((T.gt(self.re, T.ZERO), "log argument > 0"))
        return Val("log", self.re, self.im, self.mu)

    def conjugate(self):
        if self.im is None:
            return self
        if self.kind == "lin":
            return Val("lin", self.re, T.neg(self.im), self.mu)
        if self.kind == "log":
            return Val("log", self.re, T.neg(self.im), self.mu)  # conj(log z) = log(conj z) off the cut
        raise Unsupported("conj")

    conj = conjugate

    def __abs__(self):
        self._need("lin")
        if self.im is not None:
            raise Unsupported("complex abs")
        return Val("lin", T.ite(T.ge(self.re, T.ZERO), self.re, T.neg(self.re)), None, self.mu)

    def sigmoid(self):
        e = self.exp()
        return e / (e + 1)

    def softplus(self):
        # log(1 + exp(x)) -> Log form
        e = self.exp()
        return (e + 1).log()

    # -- parts
    def real(self):
        if self.kind == "lin":
            return Val("lin", self.re, None, self.mu)
        if self.kind == "log":
            if self.im is None:
                return self
            if self.im is T.ZERO:
                return Val("log", T.ite(T.ge(self.re, T.ZERO), self.re, T.neg(self.re)), None, self.mu)
            # log|z|: opaque (only ever used to pick a stabilising shift)
            v = CTX.opaque("LOGABS", self.key(), _concrete_logabs(self))
            return Val("lin", v)
        raise Unsupported("real")

    def imag(self):
        if self.kind == "lin":
            return Val("lin", self.im if self.im is not None else T.ZERO, None, self.mu)
        if self.kind == "log":
            if self.im is None:
                return Val.const(0.0)
            # arg z is only meaningful modulo 2*pi (sums of logs): opaque, compared mod 2*pi
            v = CTX.opaque("ARG", self.key(), _concrete_arg(self))
            return Val("lin", v)
        raise Unsupported("imag")

    def to_complex(self):
        if self.im is not None:
            return self
        if self.kind in ("lin", "log"):
            return Val(self.kind, self.re, T.ZERO, self.mu)
        raise Unsupported("to_complex")

    # -- comparisons (lin, real)
    def _cmp(self, o, op):
        o = Val.const(o)
        if op == "eq":
            # x == amax(group)  (mask in the backward of amax): x is a maximal element of the group
            groups = CTX.__dict__.get("max_groups", {})
            for x, mx in ((self, o), (o, self)):
                if mx.kind == "lin" and not mx.mu and mx.im is None and mx.re in groups and x.re is not mx.re:
                    conds = [x._cmp(y, "ge").re for y in groups[mx.re] if y.key() != x.key()]
                    return Val("bool", T.and_(*conds) if conds else T.TRUE)
        if self.kind == "bool" and o.kind == "bool" and op == "eq":
            return Val("bool", T.eq(self.re, o.re))
        if self.kind == "log" or o.kind == "log":
            a, b = self, o
            if a.kind == "log" and b.kind == "log" and a.im is None and b.im is None:
                # log is monotone: compare arguments (both > 0 or 0)
                a, b = Val("lin", a.re, None, a.mu), Val("lin", b.re, None, b.mu)
            elif a.im is None and b.im is None and {a.kind, b.kind} == {"log", "lin"}:
                # exp is monotone: compare exp(lin side) with the argument of the log side
                if a.kind == "lin":
                    a = a.exp()
                    b = Val("lin", b.re, None, b.mu)
                else:
                    b = b.exp()
                    a = Val("lin", a.re, None, a.mu)
            else:
                raise Unsupported("compare log with lin")
        else:
            a, b = self, o
        if a.im is not None or b.im is not None:
            if op != "eq":
                raise Unsupported("complex order")
            return Val("bool", T.and_(T.eq(a.full_re(), b.full_re()), T.eq(a.full_im(), b.full_im())))
        if a.mu == b.mu:
            x, y = a.re, b.re
        else:
            _, ra, rb = mu_split(a.mu, b.mu)
            x, y = T.mul(a.re, mu_term(ra)), T.mul(b.re, mu_term(rb))
        f = {"lt": T.lt, "le": T.le, "gt": T.gt, "ge": T.ge, "eq": T.eq}[op]
        return Val("bool", f(x, y))

    def lt(self, o):
        return self._cmp(o, "lt")

    def le(self, o):
        return self._cmp(o, "le")

    def gt(self, o):
        return self._cmp(o, "gt")

    def ge(self, o):
        return self._cmp(o, "ge")

    def eq(self, o):
        return self._cmp(o, "eq")

    def ne(self, o):
        return ~self._cmp(o, "eq")

    # -- booleans
    def __invert__(self):
        self._need("bool")
        return Val("bool", T.not_(self.re))

    def __and__(self, o):
        o = Val.const(o)
        self._need("bool")
        o._need("bool")
        return Val("bool", T.and_(self.re, o.re))

    def __or__(self, o):
        o = Val.const(o)
        self._need("bool")
        o._need("bool")
        return Val("bool", T.or_(self.re, o.re))

    def __bool__(self):
        raise Unsupported("python branch on a symbolic value (use the engine's leak hooks)")

    @staticmethod
    def where(c: "Val", a, b) -> "Val":
        a, b = Val.const(a), Val.const(b)
        c._need("bool")
        if c.re is T.TRUE:
            return a
        if c.re is T.FALSE:
            return b
        if a.kind == "bool" and b.kind == "bool":
            return Val("bool", T.or_(T.and_(c.re, a.re), T.and_(T.not_(c.re), b.re)))
        if a.kind != b.kind:
            # a 'lin' number merged with a log-form value lives in the same (log-space) tensor: it
            # denotes a logarithm itself, c = log(exp(c))
            if a.kind == "lin" and b.kind == "log" and a.im is None:
                e = a.exp()
                a = Val("log", e.re, e.im, e.mu)
            elif b.kind == "lin" and a.kind == "log" and b.im is None:
                e = b.exp()
                b = Val("log", e.re, e.im, e.mu)
            else:
                raise Unsupported(f"where over {a.kind}/{b.kind}")
        if (a.im is None) != (b.im is None):
            a, b = a.to_complex(), b.to_complex()
        if a.kind == "lin" and a.im is None and b.im is None and a.key() != b.key():
            # branches that are provably equal (e.g. a mask applied to a coefficient that is identically
            # zero, as in the backward of a max shift): no if-then-else is needed
            try:
                va, vb = a.concrete(CTX.env), b.concrete(CTX.env)
                close_ = abs(va - vb) <= 1e-9 * max(1.0, abs(va), abs(vb))
            except Exception:
                close_ = False
            if close_:
                ck = (a.key(), b.key())
                memo = CTX.__dict__.setdefault("_where_eq", {})
                if ck not in memo:
                    memo[ck] = CTX.prove_equal(a.full_re(), b.full_re())
                if memo[ck]:
                    return b if (not b.mu and b.re.op == "const") else a
        if a.mu != b.mu:
            g, ra, rb = mu_split(a.mu, b.mu)
            a = Val(a.kind, T.mul(a.re, mu_term(ra)), None if a.im is None else T.mul(a.im, mu_term(ra)), g)
            b = Val(b.kind, T.mul(b.re, mu_term(rb)), None if b.im is None else T.mul(b.im, mu_term(rb)), g)
        return Val(
            a.kind,
            T.ite(c.re, a.re, b.re),
            None if a.im is None else T.ite(c.re, a.im, b.im),
            a.mu,
        )

    # -- concrete evaluation (translator validation / replay)
    def concrete(self, env=None, memo=None):
        env = CTX.env if env is None else env
        if self.kind == "bool":
            return bool(T.evaluate1(self.re, env, memo))
        m = 1.0
        for k, e in self.mu:
            m *= float(env[k]) ** e
        re = T.evaluate1(self.re, env, memo) * m
        if self.im is None:
            if self.kind == "lin":
                return re
            if re > 0:
                return math.log(re)
            if re == 0:
                return float("-inf")
            return float("nan")
        im = T.evaluate1(self.im, env, memo) * m
        z = complex(re, im)
        if self.kind == "lin":
            return z
        if z == 0:
            return complex(float("-inf"), 0.0)
        import cmath

        return cmath.log(z)


def _concrete_logabs(v: Val):
    z = Val("lin", v.re, v.im, v.mu).concrete()
    return math.log(abs(z)) if z != 0 else float("-inf")


def _concrete_arg(v: Val):
    import cmath

    z = Val("lin", v.re, v.im, v.mu).concrete()
    return cmath.phase(z)


def _lin_add(a: Val, b: Val) -> Val:
    if b.re is T.ZERO and (b.im is None or b.im is T.ZERO):
        if b.im is not None and a.im is None:
            return a.to_complex()
        return a
    if a.re is T.ZERO and (a.im is None or a.im is T.ZERO):
        if a.im is not None and b.im is None:
            return b.to_complex()
        return b
    cplx = a.im is not None or b.im is not None
    if a.mu == b.mu:
        mu = a.mu
        ar, br = a.re, b.re
        ai, bi = a.im, b.im
    else:
        mu, ra, rb = mu_split(a.mu, b.mu)
        ta, tb = mu_term(ra), mu_term(rb)
        ar, br = T.mul(a.re, ta), T.mul(b.re, tb)
        ai = None if a.im is None else T.mul(a.im, ta)
        bi = None if b.im is None else T.mul(b.im, tb)
    re = T.add(ar, br)
    im = None
    if cplx:
        im = T.add(ai if ai is not None else T.ZERO, bi if bi is not None else T.ZERO)
    elif mu:
        re, mu = _cancel_pos(re, mu)
    return Val("lin", re, im, mu)


def _sqrt_norm(mu: tuple):
    """Normalise a monomial.  (1) SQRT[t]^(2k) -> t^k (returned as a factor Term);  (2) all E-atoms
    with a *compound* exponent (not a plain variable) are combined into ONE atom of the summed
    exponent, E[c1]^e1 * E[c2]^e2 -> E[e1*c1 + e2*c2], so that e.g. the exponent of a product of
    Gaussians and the sum of the factors' exponents meet in the same atom (after the solver proved
    the two exponents equal -- see Ctx.E)."""
    if not mu:
        return T.ONE, mu
    fac = T.ONE
    out = []
    changed = False
    ecores = []
    for k, e in mu:
        d = CTX.atom_def.get(k)
        if d is not None and d[0] == "sqrt" and abs(e) >= 2:
            h, r = divmod(abs(e), 2)
            f = T.powi(d[1], h)
            fac = T.mul(fac, f) if e > 0 else T.div(fac, f)
            if r:
                out.append((k, r if e > 0 else -r))
            changed = True
        elif d is not None and d[0] == "exp" and d[1].op != "var":
            ecores.append((k, e, d[1]))
        else:
            out.append((k, e))
    if ecores:
        if len(ecores) == 1 and ecores[0][1] == 1:
            out.append((ecores[0][0], 1))
        else:
            core = T.add(*[T.mul(T.const(e), c) for _, e, c in ecores])
            changed = True
            if core.op == "const":
                if core.data != 0:
                    v = exp_val(core)
                    fac = T.mul(fac, v.re)
                    out.extend(v.mu)
            elif core.op == "var":
                out.append((CTX.E(core), 1))
            else:
                q, c2 = _split_coef(core)
                if q.denominator == 1 and c2.op == "var":
                    out.append((CTX.E(c2), int(q)))
                else:
                    out.append((CTX.E(core), 1))
    if not changed:
        return T.ONE, mu
    d2: dict = {}
    for k, e in out:
        d2[k] = d2.get(k, 0) + e
    return fac, tuple(sorted(((k, e) for k, e in d2.items() if e), key=lambda kv: kv[0].id))


def _P_mul(a: Val, b: Val, kind: str) -> Val:
    mu = mu_mul(a.mu, b.mu)
    fac, mu = _sqrt_norm(mu)
    if a.im is None and b.im is None:
        return Val(kind, T.mul(a.re, b.re, fac), None, mu)
    ai = a.im if a.im is not None else T.ZERO
    bi = b.im if b.im is not None else T.ZERO
    re = T.mul(fac, T.sub(T.mul(a.re, b.re), T.mul(ai, bi)))
    im = T.mul(fac, T.add(T.mul(a.re, bi), T.mul(ai, b.re)))
    return Val(kind, re, im, mu)


def _cancel_pos(re: Term, mu: tuple):
    """(S) * POS[S]^-1 -> 1 : a sum that reproduces the defining term of a denominator atom cancels."""
    for k, e in mu:
        if e < 0:
            d = CTX.atom_def.get(k)
            if d is not None and d[0] == "pos" and d[1] is re:
                return T.ONE, mu_mul(mu, ((k, 1),))
    return re, mu


def _P_inv(a: Val) -> Val:
    fac0, mu = _sqrt_norm(mu_pow(a.mu, -1))
    if fac0 is not T.ONE:
        a = Val(a.kind, T.div(a.re, fac0), None if a.im is None else T.div(a.im, fac0), a.mu)
    if a.im is None:
        re = a.re
        if re.op not in ("const", "var", "atom") and CTX.is_pos(re):
            # reciprocal of a compound term known to be positive: keep the denominator as an atom of
            # the monomial so that normalisations (sum of softmax = 1, ...) cancel syntactically
            return Val(a.kind, T.ONE, None, mu_mul(mu, ((CTX.pos_atom(re), -1),)))
        return Val(a.kind, T.div(T.ONE, re), None, mu)
    d = T.add(T.mul(a.re, a.re), T.mul(a.im, a.im))
    return Val(a.kind, T.div(a.re, d), T.neg(T.div(a.im, d)), mu)


def _log_shift(lg: Val, v: Val) -> Val:
    """log(P) + v  =  log(P * exp(v))   (v real)."""
    if v.im is not None:
        if v.im is T.ZERO:
            v = Val("lin", v.re, None, v.mu)
            lg = lg.to_complex()
        else:
            raise Unsupported("log + complex lin")
    if v.re is T.ZERO:
        return lg
    c, mu = exp_of_term(v.full_re())
    return Val("log", T.mul(lg.re, c), None if lg.im is None else T.mul(lg.im, c), mu_mul(lg.mu, mu))


def _log_scale(lg: Val, c: Val) -> Val:
    """log(P) * c = log(P^c) for rational constant c."""
    if c.im is not None or c.mu or c.re.op != "const":
        raise Unsupported("log value times non-constant")
    q = c.re.data
    base = Val("lin", lg.re, lg.im, lg.mu)
    if q.denominator == 1:
        r = base ** int(q)
    elif q.denominator == 2:
        r = base.sqrt() ** int(q.numerator)
    else:
        raise Unsupported(f"log value times {q}")
    return Val("log", r.re, r.im, r.mu)


def _split_coef(a: Term):
    if a.op == "mul":
        cs = [x for x in a.args if x.op == "const"]
        if cs:
            rest = [x for x in a.args if x.op != "const"]
            return cs[0].data, (T.mul(*rest) if len(rest) > 1 else rest[0])
    return Fraction(1), a


_CONST_BASES = (("SQRT2PI", LOG_SQRT_2PI), ("TWO", LOG_2))


_IN_NORM = [False]


def exp_val(t: Term) -> "Val":
    """exp(t) as a Lin value: exponentials of sums factor, integer multiples of a core become powers
    of the atom E[core], if-then-else distributes (so that a table lookup with a symbolic index
    commutes with exp), constants map to rationals / named constants."""
    addends = t.args if t.op == "add" else (t,)
    mu: dict[Term, int] = {}
    coef = T.ONE
    ites: list[Term] = []
    sums: list[Term] = []
    for a in addends:
        if a.op == "const":
            c = float(a.data)
            if c == 0:
                continue
            done = False
            for name, base in _CONST_BASES:
                n = c / base
                if abs(n - round(n)) < 1e-9 and abs(round(n)) <= 64:
                    if name == "TWO":
                        coef = T.mul(coef, T.const(Fraction(2) ** int(round(n))))
                    else:
                        at = CTX.named_const_atom(name, math.exp(base))
                        mu[at] = mu.get(at, 0) + int(round(n))
                    done = True
                    break
            if not done:
                at = CTX.named_const_atom(f"EXPC[{c:.12g}]", math.exp(c))
                mu[at] = mu.get(at, 0) + 1
            continue
        if a.op == "ite":
            ites.append(a)
            continue
        q, core = _split_coef(a)
        if core.op == "ite" and q.denominator == 1:
            ites.append(a)
            continue
        if core.op == "add" and q.denominator == 1 and any(x.op == "ite" or _split_coef(x)[1].op == "ite" for x in core.args):
            # q * (s1 + s2 + ...) with table lookups among the s_i: exp factors over the sum
            sums.extend(T.mul(T.const(q), x) for x in core.args)
            continue
        if q.denominator == 1:
            at = CTX.E(core)
            mu[at] = mu.get(at, 0) + int(q)
        else:
            at = CTX.E(a)
            mu[at] = mu.get(at, 0) + 1
    m = tuple(sorted(((k, e) for k, e in mu.items() if e), key=lambda kv: kv[0].id))
    if not _IN_NORM[0]:
        _IN_NORM[0] = True
        try:
            fac, m = _sqrt_norm(m)
        finally:
            _IN_NORM[0] = False
        coef = T.mul(coef, fac)
    r = Val("lin", coef, None, m)
    for a in ites:
        q, core = _split_coef(a)
        if core.op != "ite":
            core, q = a, Fraction(1)
        c, x, y = core.args
        q = T.const(q)
        br = Val.where(Val("bool", c), exp_val(T.mul(q, x)), exp_val(T.mul(q, y)))
        r = r * br
    for a in sums:
        r = r * exp_val(a)
    return r


def exp_of_term(t: Term):
    """exp(t) as (term, monomial)."""
    v = exp_val(t)
    return v.re, v.mu


def softmax_lane(vs: list) -> list:
    """softmax of a 1-D lane of values.

    If the lane consists of distinct plain parameter variables theta_0..theta_{n-1}, the result is
    abstracted to a point of the open simplex: fresh positive atoms SM_j (j < n-1) and
    SM_{n-1} := 1 - sum_j SM_j, assumed positive.  theta -> softmax(theta) is onto the open simplex, so
    a property proved for every simplex point holds for every theta (sound for unsat); the link between
    theta and SM is dropped, so a model is only a candidate and is replayed with theta_j = log SM_j.
    Normalisation sum_j SM_j = 1 then holds by construction.  Otherwise: exp(v_j) / sum_k exp(v_k)."""
    n = len(vs)
    plain = all(
        isinstance(v, Val) and v.kind == "lin" and v.im is None and not v.mu and v.re.op == "var" for v in vs
    ) and len({v.re.id for v in vs}) == n
    if plain and n >= 2 and not CTX.disable_softmax_abstraction:
        key = tuple(v.re.id for v in vs)
        got = CTX._sm.get(key)
        if got is None:
            th = [float(CTX.env[v.re]) for v in vs]
            mx = max(th)
            ex = [math.exp(t - mx) for t in th]
            tot = sum(ex)
            atoms = []
            for j in range(n - 1):
                a = T.atom(f"SM[{vs[0].re.data}..][{j}]")
                CTX.env[a] = ex[j] / tot
                CTX.atom_def[a] = ("softmax", key, j)
                atoms.append(a)
            last = T.sub(T.ONE, T.add(*atoms))
            CTX.assumptions.append(T.gt(last, T.ZERO))
            CTX.positive_terms.add(last.id)
            got = [Val("lin", a) for a in atoms] + [Val("lin", last)]
            CTX._sm[key] = got
            CTX._sm_vars[key] = [v.re for v in vs]
        return list(got)
    es = [v.exp() for v in vs]
    tot = es[0]
    for e in es[1:]:
        tot = tot + e
    return [e / tot for e in es]


def close(a, b, rtol=1e-7, atol=1e-9) -> bool:
    """numeric agreement of a Val's concrete evaluation with a python number from torch."""
    if isinstance(a, bool) or isinstance(b, bool):
        return bool(a) == bool(b)
    if isinstance(a, complex) or isinstance(b, complex):
        a, b = complex(a), complex(b)
        if math.isinf(a.real) or math.isinf(b.real):
            return a.real == b.real
        if math.isnan(a.real) or math.isnan(b.real):
            return math.isnan(a.real) and math.isnan(b.real)
        # imaginary part of logs is modulo 2pi
        return abs(a.real - b.real) <= atol + rtol * max(abs(a.real), abs(b.real)) and (
            abs(a.imag - b.imag) <= atol + rtol * max(abs(a.imag), abs(b.imag))
            or min((a.imag - b.imag) % (2 * math.pi), 2 * math.pi - (a.imag - b.imag) % (2 * math.pi)) <= 1e-6
        )
    a, b = float(a), float(b)
    if math.isnan(a) or math.isnan(b):
        return math.isnan(a) and math.isnan(b)
    if math.isinf(a) or math.isinf(b):
        return a == b
    return abs(a - b) <= atol + rtol * max(abs(a), abs(b))

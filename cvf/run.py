import sys

from . import driver

if __name__ == "__main__":
    pid = sys.argv[1]
    sys.exit(driver.main(f"checks.{pid}", sys.argv[2:]))

"""Reference semantics of *symbolic* cirkit objects (Circuit / Layer / Parameter graphs).

Written from the documented mathematics only: linear space, one layer at a time, no folding, no
semiring, no address book, no einsum.  Values are `Val`s so that the result can be compared by the
solver with what the compiled torch code computed under the shadow engine.
"""
from __future__ import annotations

import itertools
import math
from fractions import Fraction

import numpy as np

from cirkit.symbolic import layers as SL
from cirkit.symbolic import parameters as SP
from cirkit.symbolic.circuit import Circuit

from . import terms as T
from . import vals as V
from .vals import Unsupported, Val


def _uf(f):
    return np.frompyfunc(f, 1, 1)


def const_array(value, shape) -> np.ndarray:
    out = np.empty(shape, dtype=object)
    if isinstance(value, np.ndarray):
        for idx in np.ndindex(*shape):
            out[idx] = Val.const(value[idx].item())
    else:
        c = Val.const(value)
        for idx in np.ndindex(*shape):
            out[idx] = c
    return out


class ParamEnv:
    """Maps symbolic TensorParameter leaves to Val arrays (shared with the binding of the compiled
    tensors).  Constant parameters default to their declared value."""

    def __init__(self):
        self.leaves: dict[SP.TensorParameter, np.ndarray] = {}

    def leaf(self, p: SP.TensorParameter) -> np.ndarray:
        a = self.leaves.get(p)
        if a is None:
            if isinstance(p, SP.ConstantParameter):
                a = const_array(p.value, p.shape)
                self.leaves[p] = a
            else:
                raise KeyError(f"unbound symbolic tensor parameter {p} shape={p.shape}")
        return a


# ---------------------------------------------------------------------------------------------
# parameter graphs
# ---------------------------------------------------------------------------------------------


def eval_parameter(p: SP.Parameter, penv: ParamEnv) -> np.ndarray:
    vals: dict[SP.ParameterNode, np.ndarray] = {}
    for n in p.topological_ordering():
        ins = [vals[i] for i in p.node_inputs(n)]
        vals[n] = eval_node(n, ins, penv)
        if tuple(vals[n].shape) != tuple(n.shape):
            raise AssertionError(f"refsem: node {type(n).__name__} produced shape {vals[n].shape}, declared {n.shape}")
    return vals[p.output]


def _along(a: np.ndarray, axis: int, f):
    """apply f to each 1-D lane along axis, f returns list of Vals of same length or a single Val."""
    a2 = np.moveaxis(a, axis, -1)
    first = f(list(a2[(0,) * (a2.ndim - 1)])) if a2.ndim > 1 else f(list(a2))
    if isinstance(first, list):
        out = np.empty(a2.shape[:-1] + (len(first),), dtype=object)
        for idx in np.ndindex(*a2.shape[:-1]):
            out[idx] = f(list(a2[idx]))
        return np.moveaxis(out, -1, axis)
    out = np.empty(a2.shape[:-1], dtype=object)
    for idx in np.ndindex(*a2.shape[:-1]):
        out[idx] = f(list(a2[idx]))
    return out


def _vsum(vs):
    r = vs[0]
    for v in vs[1:]:
        r = r + v
    return r


def _vprod(vs):
    r = vs[0]
    for v in vs[1:]:
        r = r * v
    return r


def eval_node(n: SP.ParameterNode, ins: list[np.ndarray], penv: ParamEnv) -> np.ndarray:
    if isinstance(n, SP.ReferenceParameter):
        return penv.leaf(n.deref())
    if isinstance(n, SP.TensorParameter):
        return penv.leaf(n)
    if isinstance(n, SP.IndexParameter):
        return np.take(ins[0], n.indices, axis=n.axis)
    if isinstance(n, SP.SumParameter):
        return ins[0] + ins[1]
    if isinstance(n, SP.HadamardParameter):
        return ins[0] * ins[1]
    if isinstance(n, SP.KroneckerParameter):
        a, b = ins
        out = np.empty(tuple(x * y for x, y in zip(a.shape, b.shape)), dtype=object)
        for ia in np.ndindex(*a.shape):
            for ib in np.ndindex(*b.shape):
                out[tuple(i * sb + j for i, j, sb in zip(ia, ib, b.shape))] = a[ia] * b[ib]
        return out
    if isinstance(n, (SP.OuterProductParameter, SP.OuterSumParameter)):
        a, b = ins
        ax = n.axis
        shp = list(a.shape)
        shp[ax] = a.shape[ax] * b.shape[ax]
        out = np.empty(shp, dtype=object)
        isprod = isinstance(n, SP.OuterProductParameter)
        for idx in np.ndindex(*shp):
            i, j = divmod(idx[ax], b.shape[ax])
            ia = idx[:ax] + (i,) + idx[ax + 1 :]
            ib = idx[:ax] + (j,) + idx[ax + 1 :]
            out[idx] = a[ia] * b[ib] if isprod else a[ia] + b[ib]
        return out
    if isinstance(n, SP.ExpParameter):
        return _uf(lambda v: v.exp())(ins[0])
    if isinstance(n, SP.LogParameter):
        return _uf(lambda v: v.log())(ins[0])
    if isinstance(n, SP.SquareParameter):
        return _uf(lambda v: v * v)(ins[0])
    if isinstance(n, SP.SoftplusParameter):
        return _uf(lambda v: v.softplus())(ins[0])
    if isinstance(n, SP.SigmoidParameter):
        return _uf(lambda v: v.sigmoid())(ins[0])
    if isinstance(n, SP.ScaledSigmoidParameter):
        return _uf(lambda v: v.sigmoid() * (n.vmax - n.vmin) + n.vmin)(ins[0])
    if isinstance(n, SP.ClampParameter):

        def cl(v):
            r = v
            if n.vmin is not None:
                r = Val.where(r.lt(n.vmin), Val.const(n.vmin), r)
            if n.vmax is not None:
                r = Val.where(r.gt(n.vmax), Val.const(n.vmax), r)
            return r

        return _uf(cl)(ins[0])
    if isinstance(n, SP.ConjugateParameter):
        return _uf(lambda v: v.conjugate())(ins[0])
    if isinstance(n, SP.ReduceSumParameter):
        return _along(ins[0], n.axis, _vsum)
    if isinstance(n, SP.ReduceProductParameter):
        return _along(ins[0], n.axis, _vprod)
    if isinstance(n, SP.ReduceLSEParameter):
        return _along(ins[0], n.axis, lambda vs: _vsum([v.exp() for v in vs]).log())
    if isinstance(n, SP.SoftmaxParameter):

        return _along(ins[0], n.axis, lambda vs: V.softmax_lane(list(vs)))
    if isinstance(n, SP.LogSoftmaxParameter):

        return _along(ins[0], n.axis, lambda vs: [v.log() for v in V.softmax_lane(list(vs))])
    if isinstance(n, SP.MixingWeightParameter):
        v = ins[0]
        K, H = v.shape
        out = np.empty((K, K * H), dtype=object)
        zero = Val.const(0.0)
        for k in range(K):
            for h in range(H):
                for k2 in range(K):
                    out[k, h * K + k2] = v[k, h] if k == k2 else zero
        return out
    if isinstance(n, SP.GaussianProductMean):
        m1, s1, m2, s2 = ins
        out = np.empty(n.shape, dtype=object)
        K2 = m2.shape[0]
        for i in range(m1.shape[0]):
            for j in range(K2):
                v1, v2 = s1[i] * s1[i], s2[j] * s2[j]
                out[i * K2 + j] = (m1[i] * v2 + m2[j] * v1) / (v1 + v2)
        return out
    if isinstance(n, SP.GaussianProductStddev):
        s1, s2 = ins
        out = np.empty(n.shape, dtype=object)
        K2 = s2.shape[0]
        for i in range(s1.shape[0]):
            for j in range(K2):
                v1, v2 = s1[i] * s1[i], s2[j] * s2[j]
                out[i * K2 + j] = ((v1 * v2) / (v1 + v2)).sqrt()
        return out
    if isinstance(n, SP.GaussianProductLogPartition):
        m1, s1, m2, s2 = ins
        out = np.empty(n.shape, dtype=object)
        K2 = m2.shape[0]
        for i in range(m1.shape[0]):
            for j in range(K2):
                v12 = s1[i] * s1[i] + s2[j] * s2[j]
                d = m1[i] - m2[j]
                # log N(m1; m2, v12)
                out[i * K2 + j] = gaussian_density(d, v12.sqrt()).log()
        return out
    if isinstance(n, SP.PolynomialProduct):
        a, b = ins
        K1, d1 = a.shape
        K2, d2 = b.shape
        out = np.empty((K1 * K2, d1 + d2 - 1), dtype=object)
        zero = Val.const(0.0)
        for i in range(K1):
            for j in range(K2):
                for k in range(d1 + d2 - 1):
                    acc = zero
                    for p in range(d1):
                        q = k - p
                        if 0 <= q < d2:
                            acc = acc + a[i, p] * b[j, q]
                    out[i * K2 + j, k] = acc
        return out
    if isinstance(n, SP.PolynomialDifferential):
        a = ins[0]
        K, dp1 = a.shape
        if dp1 <= n.order:
            out = np.empty((K, 1), dtype=object)
            out[:, 0] = Val.const(0.0)
            return out
        out = np.empty((K, dp1 - n.order), dtype=object)
        for k in range(K):
            for j in range(dp1 - n.order):
                c = 1
                for r in range(n.order):
                    c *= j + n.order - r
                out[k, j] = a[k, j + n.order] * c
        return out
    raise Unsupported(f"refsem: parameter node {type(n).__name__}")


def gaussian_density(d: Val, sigma: Val) -> Val:
    """N(d; 0, sigma) = exp(-d^2/(2 sigma^2)) / (sigma sqrt(2 pi)) as a Lin value."""
    e = -(d * d) / (sigma * sigma * 2)
    sq2pi = Val("lin", T.ONE, None, ((V.ctx().named_const_atom("SQRT2PI", math.exp(V.LOG_SQRT_2PI)), 1),))
    return e.exp() / (sigma * sq2pi)


# ---------------------------------------------------------------------------------------------
# layers
# ---------------------------------------------------------------------------------------------


def select_by_index(row: list, x: Val) -> Val:
    """row[x] for an integer-valued Val x (constant or symbolic)."""
    if x.kind != "lin" or x.im is not None or x.mu:
        raise Unsupported("index value")
    if x.re.op == "const":
        q = x.re.data
        if q.denominator != 1 or not 0 <= q < len(row):
            raise IndexError(f"reference: category {q} out of range")
        return row[int(q)]
    chain = row[-1]
    for v in range(len(row) - 2, -1, -1):
        chain = Val.where(x.eq(v), row[v], chain)
    return chain


def eval_input_layer(sl: SL.InputLayer, x: dict[int, Val], penv: ParamEnv) -> np.ndarray:
    K = sl.num_output_units
    out = np.empty((K,), dtype=object)
    if isinstance(sl, SL.EvidenceLayer):
        obs = eval_parameter(sl.observation, penv)
        xx = dict(x)
        for var, o in zip(sorted(sl.layer.scope), obs):
            xx[var] = o
        return eval_input_layer(sl.layer, xx, penv)
    if isinstance(sl, SL.ConstantValueLayer):
        v = eval_parameter(sl.value, penv)
        return _uf(lambda u: u.exp())(v) if sl.log_space else v
    (var,) = tuple(sl.scope)
    xv = x[var]
    if isinstance(sl, SL.CategoricalLayer):
        if sl.logits is None:
            p = eval_parameter(sl.probs, penv)
        else:
            p = _uf(lambda u: u.exp())(eval_parameter(sl.logits, penv))
        for k in range(K):
            out[k] = select_by_index(list(p[k]), xv)
        return out
    if isinstance(sl, SL.EmbeddingLayer):
        w = eval_parameter(sl.weight, penv)
        for k in range(K):
            out[k] = select_by_index(list(w[k]), xv)
        return out
    if isinstance(sl, SL.BinomialLayer):
        n = sl.total_count
        if sl.logits is None:
            p = eval_parameter(sl.probs, penv)
        else:
            p = _uf(lambda u: u.sigmoid())(eval_parameter(sl.logits, penv))
        for k in range(K):
            row = [Val.const(math.comb(n, j)) * (p[k] ** j) * ((Val.const(1.0) - p[k]) ** (n - j)) for j in range(n + 1)]
            out[k] = select_by_index(row, xv)
        return out
    if isinstance(sl, SL.GaussianLayer):
        mu = eval_parameter(sl.mean, penv)
        sd = eval_parameter(sl.stddev, penv)
        lp = eval_parameter(sl.log_partition, penv) if sl.log_partition is not None else None
        for k in range(K):
            d = gaussian_density(xv - mu[k], sd[k])
            if lp is not None:
                d = d * lp[k].exp()
            out[k] = d
        return out
    if isinstance(sl, SL.PolynomialLayer):
        c = eval_parameter(sl.coeff, penv)
        for k in range(K):
            acc = Val.const(0.0)
            xp = Val.const(1.0)
            for j in range(c.shape[1]):
                acc = acc + c[k, j] * xp
                xp = xp * xv
            out[k] = acc
        return out
    raise Unsupported(f"refsem: input layer {type(sl).__name__}")


def eval_circuit(sc: Circuit, x: dict[int, Val], penv: ParamEnv, hook=None) -> list[np.ndarray]:
    """Returns, for each output layer in declared order, the vector of unit values at input x."""
    vals: dict[SL.Layer, np.ndarray] = {}
    for sl in sc.topological_ordering():
        ins = [vals[i] for i in sc.layer_inputs(sl)]
        if isinstance(sl, SL.InputLayer):
            v = eval_input_layer(sl, x, penv)
        elif isinstance(sl, SL.SumLayer):
            w = eval_parameter(sl.weight, penv)
            cat = np.concatenate(ins)
            v = np.empty((sl.num_output_units,), dtype=object)
            for o in range(sl.num_output_units):
                acc = None
                for i in range(cat.shape[0]):
                    t = w[o, i] * cat[i]
                    acc = t if acc is None else acc + t
                v[o] = acc
        elif isinstance(sl, SL.HadamardLayer):
            v = ins[0]
            for a in ins[1:]:
                v = v * a
        elif isinstance(sl, SL.KroneckerLayer):
            v = ins[0]
            for a in ins[1:]:
                v = np.asarray([p * q for p in v for q in a], dtype=object)
        else:
            raise Unsupported(f"refsem: layer {type(sl).__name__}")
        if v.shape != (sl.num_output_units,):
            raise AssertionError(f"refsem: layer {type(sl).__name__} gave {v.shape}, declared {sl.num_output_units}")
        if hook is not None:
            hook(sl, v)
        vals[sl] = v
    return [vals[o] for o in sc.outputs]


# ---------------------------------------------------------------------------------------------
# integration helpers (oracles for C03 / C11 / C12)
# ---------------------------------------------------------------------------------------------


def input_layer_of_var(sc: Circuit) -> dict[int, list[SL.InputLayer]]:
    m: dict[int, list] = {}
    for sl in sc.input_layers:
        inner = sl.layer if isinstance(sl, SL.EvidenceLayer) else sl
        if isinstance(sl, SL.EvidenceLayer):
            continue
        for v in sl.scope:
            m.setdefault(v, []).append(inner)
    return m


def discrete_domain(sc: Circuit, var: int) -> int | None:
    """number of states of a discrete variable (None if it is continuous)."""
    ns = set()
    for sl in input_layer_of_var(sc).get(var, []):
        if isinstance(sl, SL.CategoricalLayer):
            ns.add(sl.num_categories)
        elif isinstance(sl, SL.EmbeddingLayer):
            ns.add(sl.num_states)
        elif isinstance(sl, SL.BinomialLayer):
            ns.add(sl.total_count + 1)
        else:
            return None
    if len(ns) != 1:
        raise Unsupported(f"variable {var} has input layers with different domains {ns}")
    return ns.pop()


def brute_force_sum(sc: Circuit, zvars: list[int], y: dict[int, Val], penv: ParamEnv) -> list[np.ndarray]:
    """sum over all assignments of the discrete variables zvars of the circuit outputs."""
    doms = [discrete_domain(sc, v) for v in zvars]
    if any(d is None for d in doms):
        raise Unsupported("brute force over a continuous variable")
    total = None
    for assign in itertools.product(*[range(d) for d in doms]):
        x = dict(y)
        for v, a in zip(zvars, assign):
            x[v] = Val.const(a)
        outs = eval_circuit(sc, x, penv)
        total = outs if total is None else [t + o for t, o in zip(total, outs)]
    return total

"""Case runner shared by the engine-A properties: trace compiled circuits under the shadow engine and
compare every output entry with the reference semantics through the solver."""
from __future__ import annotations

import json
import time
import traceback

import numpy as np
import torch

from cirkit.backend.torch.compiler import TorchCompiler
from cirkit.symbolic import parameters as SP
from cirkit.symbolic.circuit import Circuit

from . import families, refsem
from . import terms as T
from . import vals as V
from .harness import (
    FLAGS,
    BindingViolation,
    HarnessError,
    LeafSpec,
    Session,
    SymEnv,
    bind_inputs,
    bind_shadows,
    case_hash,
    circuit_leaves,
    denote,
    eq_goal,
    input_spec,
    make_inputs,
    write_concrete,
)
from .shadow import Shadow, TranslatorMismatch
from .vals import Unsupported, Val


class Positivity:
    """cheap syntactic sign analysis; the solver is only asked when this cannot tell."""

    def __init__(self, ctx: V.Ctx, positive_vars: set):
        self.pos = set(positive_vars)
        self.memo: dict[int, bool] = {}

    def positive(self, t: T.Term) -> bool:
        for n in T.postorder([t]):
            if n.id in self.memo:
                continue
            op = n.op
            if op == "const":
                r = n.data > 0
            elif op == "atom":
                r = True
            elif op == "var":
                r = n in self.pos
            elif op in ("add",):
                # all addends positive, or non-negative constants with at least one positive
                r = all(self.memo[a.id] for a in n.args)
            elif op == "mul":
                r = all(self.memo[a.id] for a in n.args)
            elif op == "div":
                r = self.memo[n.args[0].id] and self.memo[n.args[1].id]
            elif op == "pow":
                r = self.memo[n.args[0].id] or (n.data % 2 == 0 and False)
            elif op == "ite":
                r = self.memo[n.args[1].id] and self.memo[n.args[2].id]
            else:
                r = False
            self.memo[n.id] = r
        return self.memo[t.id]


def positive_vars_of(senv: SymEnv) -> set:
    out = set()
    for p, arr in senv.penv.leaves.items():
        spec = senv.leaf_specs.get(p)
        if spec is None:
            continue
        if spec.positive or spec.unit_interval:
            for v in arr.ravel():
                out.add(v.re)
    return out


SYMBOLIC_OBS = [False]
# C20 (logic circuits 'compiled with default inputs'): tensor parameters with a constant initialiser keep
# their initial value instead of becoming solver variables
FIXED_INIT = [False]
ORACLES: dict = {}


def setup_leaves(sc: Circuit, senv: SymEnv, monotone: bool, normalized: bool = False, extra_specs: dict | None = None):
    specs = families.leaf_specs(sc, monotone, normalized)
    if extra_specs:
        specs.update(extra_specs)
    # leaves of the circuit and of every operand circuit it was derived from (the operand is compiled
    # in the same pipeline, and the operator oracles evaluate the operand's reference semantics)
    leaves = []
    seen_c = set()

    def visit(c):
        if id(c) in seen_c:
            return
        seen_c.add(id(c))
        if c.operation is not None:
            for o in c.operation.operands:
                visit(o)
        for p in circuit_leaves(c):
            if p not in leaves:
                leaves.append(p)

    visit(sc)
    obs_params = {}
    if SYMBOLIC_OBS[0]:
        from cirkit.symbolic import layers as SL_

        def scan(c):
            if c.operation is not None:
                for o in c.operation.operands:
                    scan(o)
            for sl in c.layers:
                if isinstance(sl, SL_.EvidenceLayer):
                    for n in sl.observation.nodes:
                        if isinstance(n, SP.ConstantParameter):
                            obs_params[n] = sl

        scan(sc)
    for p in leaves:
        if p in obs_params:
            senv.new_observation(p, obs_params[p])
            continue
        if isinstance(p, SP.ConstantParameter):
            continue
        if FIXED_INIT[0]:
            from cirkit.symbolic.initializers import ConstantTensorInitializer

            if isinstance(p.initializer, ConstantTensorInitializer):
                v0 = p.initializer.value
                if isinstance(v0, np.ndarray):
                    v0 = np.broadcast_to(v0, p.shape)
                senv.penv.leaves[p] = refsem.const_array(v0, p.shape)
                continue
        senv.new_param(p, specs.get(p, LeafSpec(positive=monotone)))
    return leaves


def trace_circuit(sc: Circuit, senv: SymEnv, compiler: TorchCompiler, x, rows, leaves, run=None):
    """compile (outside the shadow), bind, evaluate under the shadow.  Returns (out tensor, Val array, mode)."""
    cc = compiler.compile(sc)
    write_concrete(compiler, senv, leaves)
    m = Shadow(senv.ctx)
    with m:
        bind_shadows(m, compiler, senv, leaves)
        bind_inputs(m, x, rows)
        out = cc(x) if run is None else run(cc, x, m)
        arr = m.get(out) if isinstance(out, torch.Tensor) else None
        if arr is None and isinstance(out, torch.Tensor):
            from .shadow import lift_concrete

            arr = lift_concrete(out)
    return cc, out, arr, m


def check_obligations(sess: Session, senv: SymEnv, label: str, violations: list, desc, extra=None):
    """definedness obligations recorded during tracing (log argument > 0, index in range, ...)."""
    ctx = senv.ctx
    pos = Positivity(ctx, positive_vars_of(senv))
    seen = set()
    todo = []
    for t, why in ctx.obligations:
        if t.id in seen or t is T.TRUE:
            continue
        seen.add(t.id)
        # t is 'lt(0, x)' or similar: try syntactic positivity
        if t.op == "lt" and t.args[0] is T.ZERO and (ctx.is_pos(t.args[1]) or pos.positive(t.args[1])):
            continue
        todo.append((t, why))
    ctx.obligations.clear()
    n_syn = len(seen) - len(todo)
    sess.obligations += n_syn
    sess.discharged += n_syn
    sess.syntactic += n_syn
    for t, why in todo:
        r = sess.prove(t, f"{label}:definedness:{why}")
        if r == "cex":
            cex = sess.cex.pop()
            violations.append(
                {
                    "kind": "definedness",
                    "label": label,
                    "why": why,
                    "env": {k.data: v for k, v in cex["env"].items() if k.op == "var"},
                }
            )


def fold_counts(cc) -> list[int]:
    return sorted({l.num_folds for l in cc.layers})


# ---------------------------------------------------------------------------------------------
# concrete replay of an evaluation case (no shadow, plain float64 torch vs. float oracle)
# ---------------------------------------------------------------------------------------------


def repo_frame(tb_text: str) -> str:
    """innermost /repo frame of a traceback text: 'file.py:function'."""
    site = "?"
    for line in tb_text.splitlines():
        line = line.strip()
        if line.startswith('File "/repo/'):
            parts = line.split(",")
            f = parts[0].split("/repo/")[1].rstrip('"')
            fn = parts[2].strip().replace("in ", "") if len(parts) > 2 else "?"
            site = f"{f}:{fn}"
    return site


def to_linear(out: torch.Tensor, semiring: str) -> np.ndarray:
    if semiring == "sum-product":
        return out.detach().numpy()
    return torch.exp(out.detach()).numpy()


def reference(oracle, circuit_desc, sc, senv, rows):
    if oracle is None:
        return [refsem.eval_circuit(sc, row, senv.penv) for row in rows]
    from . import opcheck

    if oracle == "one":
        # the circuit is claimed to be identically one (partition function of a normalised model)
        one = Val.const(1.0)
        return [[np.asarray([one] * o.num_output_units, dtype=object) for o in sc.outputs] for _ in rows]
    if oracle in ORACLES:
        return ORACLES[oracle](circuit_desc, sc, senv, rows)
    return {"pipe": opcheck.pipe_oracle}[oracle](circuit_desc, sc, senv, rows)


def concrete_eval(circuit_desc, semiring, fold, optimize, B, overrides, seed, monotone, build=None, normalized=False, oracle=None):
    """returns (ok, message, details)"""
    T.reset_interning()
    sc = (build or families.build)(circuit_desc)
    senv = SymEnv(seed, overrides)
    leaves = setup_leaves(sc, senv, monotone, normalized)
    spec = input_spec(sc)
    x, rows = make_inputs(senv, spec, B, prefix=f"x{B}_")
    comp = TorchCompiler(semiring=semiring, fold=fold, optimize=optimize)
    try:
        cc = comp.compile(sc)
        write_concrete(comp, senv, leaves)
        out = cc(x)
    except BindingViolation as e:
        return False, f"binding: {e.signature}: {e.detail}", {}
    except Exception as e:  # noqa
        tb = traceback.format_exc()
        return False, f"real code raised {type(e).__name__}: {e} at {repo_frame(tb)}", {"trace": tb[-1500:]}
    O, K = len(sc.outputs), sc.outputs[0].num_output_units
    want = (B, O, K) if sc.scope else (O, K)
    if tuple(out.shape) != want:
        return False, f"shape {tuple(out.shape)} != expected {want}", {}
    lin = to_linear(out, semiring)
    if not sc.scope:
        lin = lin[None]
    worst = 0.0
    bad = None
    refs_ = reference(oracle, circuit_desc, sc, senv, rows)
    for b, row in enumerate(rows):
        ref = refs_[b]
        if len(ref) != O:
            return False, f"number of outputs {O} != {len(ref)} required by the operator's definition", {}
        for o, vec in enumerate(ref):
            for k, rv in enumerate(vec):
                want_v = rv.concrete(senv.ctx.env)
                got = lin[b, o, k].item()
                if not V.close(complex(got) if isinstance(got, complex) else got, want_v, rtol=1e-6, atol=1e-9):
                    err = abs(complex(got) - complex(want_v))
                    if bad is None or err > worst:
                        worst, bad = err, (b, o, k, got, want_v)
    if bad is not None:
        b, o, k, got, want_v = bad
        return False, f"value mismatch at row {b} output {o} unit {k}: compiled={got!r} reference={want_v!r}", {}
    return True, "compiled circuit agrees with the reference on this input", {}


# ---------------------------------------------------------------------------------------------
# symbolic evaluation case
# ---------------------------------------------------------------------------------------------


def eval_case(
    circuit_desc,
    semiring: str,
    seed: int,
    flags=FLAGS,
    batches=(2,),
    monotone=None,
    build=None,
    timeout_ms=60000,
    compare_flags: bool = False,
    normalized: bool = False,
    add_fold_batch: bool = True,
    oracle: str | None = None,
    nonneg: bool = False,
):
    """Trace the circuit for every flag pair and batch size; compare with the reference semantics.
    If compare_flags, the (F,F) trace is additionally used as oracle for the other flag pairs."""
    T.reset_interning()
    if monotone is None:
        monotone = semiring == "lse-sum"
    res = {
        "status": "ok",
        "obligations": 0,
        "discharged": 0,
        "syntactic": 0,
        "queries": 0,
        "solver_s": 0.0,
        "paths": 0,
        "violations": [],
        "inconclusive": [],
        "stubs": [],
        "ops_validated": 0,
    }
    sc = (build or families.build)(circuit_desc)
    senv = SymEnv(seed)
    leaves = setup_leaves(sc, senv, monotone, normalized)
    spec = input_spec(sc)
    sess = Session(senv, timeout_ms)
    O, K = len(sc.outputs), sc.outputs[0].num_output_units
    nparams = len(senv.param_vars)
    desc_s = families.describe(circuit_desc)
    refs: dict[int, tuple] = {}
    base_arr: dict[int, np.ndarray] = {}
    batches = list(batches)
    sizes = {}
    ops = set()

    def violation(kind, fold, opt, B, detail, overrides=None):
        sig = f"{kind}|{desc_s}|{semiring}|fold={fold},opt={opt}|B={B}"
        rp = {
            "kind": "eval",
            "circuit": circuit_desc,
            "semiring": semiring,
            "fold": fold,
            "optimize": opt,
            "B": B,
            "overrides": overrides or {},
            "seed": seed,
            "monotone": monotone,
            "normalized": normalized,
            "oracle": oracle,
            "symbolic_obs": SYMBOLIC_OBS[0],
        }
        res["violations"].append({"signature": sig, "detail": detail, "replay": rp, "hash": case_hash(rp)})

    if not sc.scope:
        batches = [1]
        add_fold_batch = False
    for fold, opt in flags:
        bs = list(batches)
        for B in bs:
            if B not in refs:
                x, rows = make_inputs(senv, spec, B, prefix=f"x{B}_")
                refs[B] = (x, rows, None)
            x, rows, ref = refs[B]
            comp = TorchCompiler(semiring=semiring, fold=fold, optimize=opt)
            try:
                cc, out, arr, m = trace_circuit(sc, senv, comp, x, rows, leaves)
            except BindingViolation as e:
                violation(f"binding:{e.signature}", fold, opt, B, e.detail)
                continue
            except (Unsupported, TranslatorMismatch) as e:
                # the shadow algebra could not follow the run.  Before calling it a harness error, check
                # the same case concretely at the trace valuation: a confirmed disagreement with the
                # oracle is a violation (typically the code took a path the algebra has no form for,
                # e.g. a log-space constant evaluated as a linear one).
                hmsg = f"{type(e).__name__}: {e}"
                ok, msg, _ = concrete_eval(circuit_desc, semiring, fold, opt, B, {}, seed, monotone, build, normalized, oracle)
                if ok:
                    raise HarnessError(f"shadow engine failed and the concrete run agrees with the oracle: {hmsg[:600]}")
                violation("value(concrete-fallback)", fold, opt, B, f"{msg} [shadow engine: {hmsg[:300]}]")
                res["status"] = "violation"
                res["aborted"] = "symbolic state reset by replay"
                _finish(res, sess, senv, circuit_desc, semiring, nparams, sizes, ops)
                return res
            except HarnessError:
                raise
            except Exception as e:  # raised by the real code
                tb = traceback.format_exc()
                ok, msg, _ = concrete_eval(circuit_desc, semiring, fold, opt, B, {}, seed, monotone, build, normalized, oracle)
                T.reset_interning  # noqa (concrete_eval reset the interning: abort this case's symbolic part)
                if ok:
                    raise HarnessError(f"exception only under the shadow engine: {type(e).__name__}: {e}\n{tb[-1200:]}")
                violation(f"raises:{type(e).__name__}@{repo_frame(tb)}", fold, opt, B, msg)
                res["status"] = "violation"
                res["aborted"] = "symbolic state reset by replay"
                _finish(res, sess, senv, circuit_desc, semiring, nparams, sizes, ops)
                return res
            res["paths"] += 1
            res["ops_validated"] += m.n_validated
            ops.update(m.ops_shadowed)
            if add_fold_batch and fold and B == bs[0]:
                for F in fold_counts(cc):
                    if F not in bs and F not in refs and 1 < F <= 4:
                        bs.append(F)
                        break
            want = (B, O, K) if sc.scope else (O, K)
            if tuple(out.shape) != want:
                ok, msg, _ = concrete_eval(circuit_desc, semiring, fold, opt, B, {}, seed, monotone, build, normalized, oracle)
                violation("shape", fold, opt, B, f"output shape {tuple(out.shape)} != {want}; replay: {msg}")
                res["status"] = "violation"
                _finish(res, sess, senv, circuit_desc, semiring, nparams, sizes, ops)
                return res
            if not sc.scope:
                arr = arr[None]
            if ref is None:
                ref = reference(oracle, circuit_desc, sc, senv, rows)
                refs[B] = (x, rows, ref)
                if len(ref[0]) != O or any(len(v) != K for v in ref[0]):
                    violation("outputs", fold, opt, B, f"circuit has {O} outputs x {K} units, the operator's definition gives {len(ref[0])} x {[len(v) for v in ref[0]]}")
                    res["status"] = "violation"
                    _finish(res, sess, senv, circuit_desc, semiring, nparams, sizes, ops)
                    return res
            sess.sanity()
            for b in range(B):
                for o in range(O):
                    for k in range(K):
                        impl = denote(arr[b, o, k], semiring)
                        goal = eq_goal(impl, ref[b][o][k])
                        label = f"fold={fold},opt={opt},B={B}:out[{b},{o},{k}]=ref"
                        sizes[label] = T.size([goal])
                        r = sess.prove(goal, label)
                        if r == "cex":
                            cex = sess.cex.pop()
                            ov = {s.data: v for s, v in cex["env"].items() if s.op == "var" and not s.data.startswith(("MAX#", "LOGABS", "ARG"))}
                            # the abstract model leaves E[.]/MAX atoms free; if the goal already fails at the
                            # (definition-consistent) valuation of the trace, replay that one instead
                            try:
                                holds_here = _goal_holds_numerically(goal, senv.ctx.env)
                            except Exception:
                                holds_here = True
                            if not holds_here:
                                ov = {}
                            else:
                                ov.update(softmax_overrides(senv.ctx, cex["env"]))
                            okc, msg, _ = concrete_eval(circuit_desc, semiring, fold, opt, B, ov, seed, monotone, build, normalized, oracle)
                            if okc:
                                # not reproduced with the solver's model: try the trace valuation itself
                                res["inconclusive"].append(label + " (solver model not reproduced on the real code)")
                                _finish(res, sess, senv, circuit_desc, semiring, nparams, sizes, ops)
                                res["aborted"] = "interning reset by replay"
                                return res
                            violation("value", fold, opt, B, f"{label}: {msg}", ov)
                            res["status"] = "violation"
                            _finish(res, sess, senv, circuit_desc, semiring, nparams, sizes, ops)
                            return res
                        if compare_flags and (fold, opt) != (False, False) and B in base_arr:
                            g2 = eq_goal(impl, denote(base_arr[B][b, o, k], semiring))
                            sess.prove(g2, f"fold={fold},opt={opt},B={B}:out[{b},{o},{k}]=unfolded-unoptimized")
            if compare_flags and (fold, opt) == (False, False):
                base_arr[B] = arr
            if nonneg and (fold, opt) == flags[0]:
                # the denoted value is non-negative for all parameter values and inputs
                for b in range(B):
                    for o in range(O):
                        for k in range(K):
                            rv = ref[b][o][k]
                            if rv.im is not None:
                                continue
                            t = rv.full_re()
                            if senv.ctx.is_pos(t):
                                sess.obligations += 1
                                sess.discharged += 1
                                sess.syntactic += 1
                                continue
                            r = sess.prove(T.ge(t, T.ZERO), f"B={B}:value[{b},{o},{k}]>=0")
                            if r == "cex":
                                cex = sess.cex.pop()
                                ov = {s_.data: v for s_, v in cex["env"].items() if s_.op == "var"}
                                ov.update(softmax_overrides(senv.ctx, cex["env"]))
                                res["inconclusive"].append(f"B={B}:value[{b},{o},{k}]>=0 has a solver model (candidate negative value) {list(ov.items())[:6]}")
            viol = []
            check_obligations(sess, senv, f"fold={fold},opt={opt},B={B}", viol, circuit_desc)
            for v in viol:
                ov = v["env"]
                okc, msg, _ = concrete_eval(circuit_desc, semiring, fold, opt, B, ov, seed, monotone, build, normalized, oracle)
                if not okc:
                    violation("definedness:" + v["why"], fold, opt, B, msg, ov)
                    res["status"] = "violation"
                else:
                    res["inconclusive"].append(f"definedness obligation '{v['why']}' has a solver model that is not reproduced")
                _finish(res, sess, senv, circuit_desc, semiring, nparams, sizes, ops)
                return res
            if senv.ctx.pc:
                # other paths (python-level branches on symbolic values): report the residue
                r, model = sess.q.check_sat([T.not_(T.and_(*[t for t, _ in senv.ctx.pc]))])
                if r != "unsat":
                    res["inconclusive"].append(f"fold={fold},opt={opt},B={B}: unexplored path ({[w for _, w in senv.ctx.pc]})")
                senv.ctx.pc.clear()
    _finish(res, sess, senv, circuit_desc, semiring, nparams, sizes, ops)
    return res


def _as_lin(v: Val) -> Val:
    return Val("lin", v.re, v.im, v.mu) if v.kind == "log" else v


def _finish(res, sess, senv, circuit_desc, semiring, nparams, sizes, ops):
    res["obligations"] += sess.obligations
    res["discharged"] += sess.discharged
    res["syntactic"] += sess.syntactic
    res["queries"] += sess.q.n_queries
    res["solver_s"] += sess.q.time
    res["inconclusive"].extend(sess.inconclusive)
    res["twins"] = res.get("twins", 0) + sess.twins
    res["cvc5_checked"] = res.get("cvc5_checked", 0) + sess.cvc5_checked
    res["cvc5_unknown"] = res.get("cvc5_unknown", 0) + sess.cvc5_unknown
    res["stubs"] = sorted(senv.ctx.stubs_used)
    res["hash"] = case_hash([circuit_desc, semiring])
    res["nontrivial"] = nparams >= 2
    big = sorted(sizes.items(), key=lambda kv: -kv[1])[:1]
    res["sample"] = {
        "circuit": circuit_desc,
        "semiring": semiring,
        "symbolic_parameters": nparams,
        "input_vars": len(senv.input_vars),
        "obligations": sess.obligations,
        "largest_goal": {"label": big[0][0], "term_nodes": big[0][1]} if big else None,
        "aten_ops_shadowed": sorted(ops)[:40],
    }


def _goal_holds_numerically(goal, env) -> bool:
    """evaluate an equality goal (or conjunction) with a relative tolerance at a concrete valuation."""
    eqs = goal.args if goal.op == "and" else (goal,)
    memo: dict = {}
    for e in eqs:
        if e.op != "eq":
            if not T.evaluate1(e, env, memo):
                return False
            continue
        a = T.evaluate1(e.args[0], env, memo)
        b = T.evaluate1(e.args[1], env, memo)
        if not V.close(a, b, rtol=1e-6, atol=1e-10):
            return False
    return True


def softmax_overrides(ctx, env) -> dict:
    """translate model values of the simplex atoms SM_j back to parameters: theta_j = log SM_j."""
    import math

    out = {}
    for key, vals_ in ctx._sm.items():
        ws = []
        ok = True
        for v in vals_[:-1]:
            a = v.re
            if a not in env:
                ok = False
                break
            ws.append(float(env[a]))
        if not ok:
            continue
        last = 1.0 - sum(ws)
        ws.append(last)
        if any(w <= 0 for w in ws):
            continue
        for var, w in zip(ctx._sm_vars[key], ws):
            out[var.data] = math.log(w)
    return out

"""Circuit skeletons over symbolic scopes (engine B) and the set-theoretic definitions (z3) of the
structural properties."""
from __future__ import annotations

import itertools

import z3

from cirkit.symbolic import layers as SL
from cirkit.symbolic.circuit import Circuit
from cirkit.symbolic.parameters import ConstantParameter, Parameter
from cirkit.utils.scope import Scope

from .symx import SymInt

# A skeleton is a list of nodes; node i is one of
#   ("leaf", j)          input layer over the single variable v_j (symbolic id)
#   ("const",)           input layer with empty scope
#   ("sum", [children])  sum layer
#   ("prod", [children]) product (Hadamard) layer
# children refer to earlier nodes; outputs is a list of node indices.


def build_circuit(skel, outputs, var_of, perm=None, leaf="cat"):
    """var_of(j) -> python int or SymInt.  perm: dict node -> permutation of its children."""
    layers = []
    ins = {}
    objs = []
    for i, n in enumerate(skel):
        if n[0] == "leaf":
            if leaf == "poly":
                l = SL.PolynomialLayer(Scope([var_of(n[1])]), 1, degree=2)
            else:
                l = SL.CategoricalLayer(Scope([var_of(n[1])]), 1, num_categories=2)
        elif n[0] == "const":
            l = SL.ConstantValueLayer(1, log_space=False, value=Parameter.from_input(ConstantParameter(1, value=1.0)))
        else:
            ch = list(n[1])
            if perm and i in perm:
                ch = [ch[k] for k in perm[i]]
            if n[0] == "sum":
                l = SL.SumLayer(1, 1, arity=len(ch))
            else:
                l = SL.HadamardLayer(1, arity=len(ch))
            ins[l] = [objs[c] for c in ch]
        objs.append(l)
        layers.append(l)
    return Circuit(layers, ins, [objs[o] for o in outputs]), objs


class Defs:
    """z3 definitions over the variable-id bit-vectors of the leaves"""

    def __init__(self, skel, var_z, nbits):
        self.skel = skel
        self.n = nbits
        one = z3.BitVecVal(1, nbits)
        self.scope = []
        for n in skel:
            if n[0] == "leaf":
                self.scope.append(one << var_z[n[1]])
            elif n[0] == "const":
                self.scope.append(z3.BitVecVal(0, nbits))
            else:
                s = z3.BitVecVal(0, nbits)
                for c in n[1]:
                    s = s | self.scope[c]
                self.scope.append(s)

    def reachable(self, outputs):
        seen = set()
        st = list(outputs)
        while st:
            i = st.pop()
            if i in seen:
                continue
            seen.add(i)
            if self.skel[i][0] in ("sum", "prod"):
                st.extend(self.skel[i][1])
        return seen

    def smooth(self, nodes=None):
        cs = []
        for i, n in enumerate(self.skel):
            if n[0] == "sum" and (nodes is None or i in nodes):
                for c in n[1]:
                    cs.append(self.scope[c] == self.scope[i])
        return z3.And(*cs) if cs else z3.BoolVal(True)

    def decomposable(self, nodes=None):
        cs = []
        for i, n in enumerate(self.skel):
            if n[0] == "prod" and (nodes is None or i in nodes):
                for a, b in itertools.combinations(n[1], 2):
                    cs.append((self.scope[a] & self.scope[b]) == 0)
        return z3.And(*cs) if cs else z3.BoolVal(True)

    def prods(self, nodes=None):
        return [i for i, n in enumerate(self.skel) if n[0] == "prod" and (nodes is None or i in nodes)]

    def same_split(self, other: "Defs", p, q):
        """products p (of self) and q (of other) split their scope into the same SET of non-empty sub-scopes"""
        cs = []
        zero = z3.BitVecVal(0, self.n)
        for a in self.skel[p][1]:
            cs.append(z3.Or(self.scope[a] == zero, *[self.scope[a] == other.scope[b] for b in other.skel[q][1]]))
        for b in other.skel[q][1]:
            cs.append(z3.Or(other.scope[b] == zero, *[other.scope[b] == self.scope[a] for a in self.skel[p][1]]))
        return z3.And(*cs)

    def nontrivial_split(self, p):
        """the product has at least two non-empty inputs (otherwise it is not a factorization)"""
        zero = z3.BitVecVal(0, self.n)
        nz = [z3.If(self.scope[a] != zero, 1, 0) for a in self.skel[p][1]]
        return z3.Sum(*nz) >= 2

    def structured(self, nodes=None):
        """necessary condition for structured decomposability: smooth, decomposable, and all
        (non-trivial) products over the same scope split it in the same way"""
        cs = [self.smooth(nodes), self.decomposable(nodes)]
        ps = self.prods(nodes)
        for p, q in itertools.combinations(ps, 2):
            cs.append(
                z3.Implies(
                    z3.And(self.scope[p] == self.scope[q], self.nontrivial_split(p), self.nontrivial_split(q)),
                    self.same_split(self, p, q),
                )
            )
        return z3.And(*cs)

    def compatible_with(self, other: "Defs", nodes=None, onodes=None):
        cs = [self.smooth(nodes), self.decomposable(nodes), other.smooth(onodes), other.decomposable(onodes)]
        for p in self.prods(nodes):
            for q in other.prods(onodes):
                cs.append(
                    z3.Implies(
                        z3.And(self.scope[p] == other.scope[q], self.nontrivial_split(p), other.nontrivial_split(q)),
                        self.same_split(other, p, q),
                    )
                )
        return z3.And(*cs)


SKELETONS = {
    # name: (nodes, outputs, number of leaf variables)
    "P2": ([("leaf", 0), ("leaf", 1), ("prod", [0, 1]), ("sum", [2])], [3], 2),
    "S2": ([("leaf", 0), ("leaf", 1), ("sum", [0, 1])], [2], 2),
    "P2P2": (
        [("leaf", 0), ("leaf", 1), ("leaf", 2), ("leaf", 3), ("prod", [0, 1]), ("prod", [2, 3]), ("sum", [4, 5])],
        [6],
        4,
    ),
    "P3": ([("leaf", 0), ("leaf", 1), ("leaf", 2), ("prod", [0, 1, 2]), ("sum", [3])], [4], 3),
    "NEST": (
        [("leaf", 0), ("leaf", 1), ("leaf", 2), ("prod", [0, 1]), ("sum", [3]), ("prod", [4, 2]), ("sum", [5])],
        [6],
        3,
    ),
    "NEST2": (
        [
            ("leaf", 0), ("leaf", 1), ("leaf", 2), ("leaf", 3), ("leaf", 4), ("leaf", 5),
            ("prod", [0, 1]), ("sum", [6]), ("prod", [7, 2]),
            ("prod", [3, 4]), ("sum", [9]), ("prod", [5, 10]),
            ("sum", [8, 11]),
        ],
        [12],
        6,
    ),
    "PCONST": ([("leaf", 0), ("leaf", 1), ("const",), ("prod", [0, 2, 1]), ("sum", [3])], [4], 2),
    "PCONST2": (
        [("leaf", 0), ("leaf", 1), ("leaf", 2), ("leaf", 3), ("const",), ("prod", [0, 1]), ("prod", [4, 2, 3]), ("sum", [5, 6])],
        [7],
        4,
    ),
    "MULTI": (
        [("leaf", 0), ("leaf", 1), ("leaf", 2), ("prod", [0, 1]), ("sum", [3]), ("prod", [1, 2]), ("sum", [5])],
        [4, 6],
        3,
    ),
    # one scope {a,b,c} split two ways over the SAME three leaves: {a,b}|{c} and {a}|{b,c}
    "TWOWAYS3": (
        [("leaf", 0), ("leaf", 1), ("leaf", 2), ("prod", [0, 1]), ("sum", [3]), ("prod", [4, 2]), ("prod", [1, 2]), ("sum", [6]), ("prod", [0, 7]), ("sum", [5, 8])],
        [9],
        3,
    ),
    "SUMMIX": (
        [("leaf", 0), ("leaf", 1), ("leaf", 2), ("leaf", 3), ("prod", [0, 1]), ("prod", [2, 3]), ("sum", [4]), ("sum", [5]), ("prod", [6, 7]), ("sum", [8])],
        [9],
        4,
    ),
}

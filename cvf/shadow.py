"""Engine A: concolic execution of real torch code.

A TorchDispatchMode intercepts every ATen call.  Tensors keep their concrete values (one valuation);
in addition a *shadow memory*, keyed by tensor storage, holds for each storage element either None
(concrete) or a `Val` (symbolic scalar).  Views and in-place writes alias exactly as the real memory
does because shadows are addressed through the tensor's (offset, sizes, strides).

Every op whose inputs carry a shadow must have a handler (else `Unsupported`: never silently
concretised), and every produced shadow is evaluated at the concrete valuation and compared with what
torch really computed (`TranslatorMismatch`) -- this validates the handlers on every op of every run.
"""
from __future__ import annotations

import math
from typing import Any, Callable

import numpy as np
import torch
from torch.utils._python_dispatch import TorchDispatchMode
from torch.utils._pytree import tree_flatten, tree_map

from . import terms as T
from . import vals as V
from .vals import Unsupported, Val


class TranslatorMismatch(Exception):
    pass


HANDLERS: dict[str, Callable] = {}
MOVE_OPS: dict[str, tuple] = {}
LEAK_OPS = {"aten._local_scalar_dense.default", "aten.is_nonzero.default", "aten.equal.default", "aten.allclose.default"}
CONCRETE_OUT = {
    "aten.new_zeros.default",
    "aten.zeros_like.default",
    "aten.ones_like.default",
    "aten.new_ones.default",
    "aten.new_empty.default",
    "aten.empty_like.default",
    "aten.new_full.default",
    "aten.full_like.default",
    "aten.new_empty_strided.default",
    "aten.sym_size.int",
    "aten.sym_numel.default",
    "aten.sym_stride.int",
    "aten.sym_storage_offset.default",
    "aten.is_same_size.default",
}


def handler(*names):
    def deco(f):
        for n in names:
            HANDLERS[n] = f
        return f

    return deco


def opname(func) -> str:
    return str(func)  # e.g. 'aten.add.Tensor'


def _skey(t: torch.Tensor):
    return t.untyped_storage()._cdata


def index_map(t: torch.Tensor) -> np.ndarray:
    st = t.untyped_storage()
    n = st.nbytes() // t.element_size()
    if t.numel() == 0:
        return np.zeros(tuple(t.shape), dtype=np.int64)
    base = torch.arange(n)
    return torch.as_strided(base, tuple(t.shape), tuple(t.stride()), t.storage_offset()).numpy()


def tensor_values(t: torch.Tensor) -> np.ndarray:
    t = t.detach()
    if t.is_conj():
        t = t.resolve_conj()
    if t.is_neg():
        t = t.resolve_neg()
    return np.asarray(t.cpu().numpy())


def lift_concrete(t: torch.Tensor) -> np.ndarray:
    vals = tensor_values(t)
    out = np.empty(vals.shape, dtype=object)
    it = np.nditer(vals, flags=["multi_index", "zerosize_ok"])
    for x in it:
        out[it.multi_index] = Val.const(x.item())
    return out


_f_conj = np.frompyfunc(lambda v: v.conjugate(), 1, 1)
_f_neg = np.frompyfunc(lambda v: -v, 1, 1)
_f_real = np.frompyfunc(lambda v: v.real(), 1, 1)
_f_imag = np.frompyfunc(lambda v: v.imag(), 1, 1)


def _take(objs, idx):
    r = np.empty(idx.shape, dtype=object)
    r.ravel()[:] = objs[idx.ravel()] if idx.size else []
    if idx.ndim == 0:
        r[()] = objs[int(idx)]
    return r


_isnone = np.frompyfunc(lambda o: o is None, 1, 1)


def oarr(x, shape=None) -> np.ndarray:
    a = np.empty((), dtype=object)
    if isinstance(x, np.ndarray) and x.dtype == object:
        a = x
    else:
        a[()] = x
    if shape is not None:
        a = np.broadcast_to(a, shape) if a.shape != tuple(shape) else a
    return a


class Shadow(TorchDispatchMode):
    def __init__(self, ctx: V.Ctx | None = None, validate: bool = True):
        super().__init__()
        self.ctx = ctx or V.ctx()
        self.mem: dict[int, tuple[np.ndarray, bool]] = {}
        self._keep: list = []
        self.validate = validate
        self.memo: dict = {}
        self.ops_seen: dict[str, int] = {}
        self.ops_shadowed: dict[str, int] = {}
        self.n_validated = 0
        self.reads_unbound: list = []
        self.trace: list | None = None
        self.leaf_reads: dict[int, torch.Tensor] = {}

    # ------------------------------------------------------------------ shadow memory
    def _entry(self, t: torch.Tensor, create: bool):
        k = _skey(t)
        e = self.mem.get(k)
        if e is None and create:
            st = t.untyped_storage()
            n = st.nbytes() // t.element_size()
            e = (np.full(n, None, dtype=object), t.is_complex())
            self.mem[k] = e
            self._keep.append(st)
        return e

    def has(self, t) -> bool:
        if not isinstance(t, torch.Tensor):
            return False
        e = self.mem.get(_skey(t))
        if e is None:
            return False
        if t.numel() == 0:
            return False
        objs, cplx = e
        idx = self._idx(t, cplx)
        return any(o is not None for o in objs[idx.ravel()])

    def _idx(self, t, storage_cplx):
        idx = index_map(t)
        if t.is_complex() == storage_cplx:
            return idx
        if storage_cplx and not t.is_complex():
            return idx // 2
        # complex view of real storage: element i covers the real slots 2i, 2i+1
        return np.concatenate([(idx * 2).ravel(), (idx * 2 + 1).ravel()])

    def get(self, t: torch.Tensor) -> np.ndarray | None:
        """object ndarray of Vals with t's shape, or None if t is fully concrete."""
        e = self.mem.get(_skey(t))
        if e is None or t.numel() == 0:
            return None
        objs, cplx = e
        raw = index_map(t)
        if t.is_complex() == cplx:
            arr = _take(objs, raw)
            part = None
        elif cplx and not t.is_complex():
            arr = _take(objs, raw // 2)
            part = raw % 2
        else:
            # complex view of real storage (view_as_complex): pair the real slots 2i, 2i+1
            re_, im_ = _take(objs, raw * 2), _take(objs, raw * 2 + 1)
            if np.asarray(_isnone(re_), dtype=bool).all() and np.asarray(_isnone(im_), dtype=bool).all():
                return None
            conc = tensor_values(t.resolve_conj().resolve_neg() if (t.is_conj() or t.is_neg()) else t)
            base = t.detach()
            if base.is_conj():
                base = base.conj()  # undo the lazy bit: we want the stored value
                conc = tensor_values(base.resolve_conj())
            arr = np.empty(raw.shape, dtype=object)
            fr, fi, fa, fc = re_.ravel(), im_.ravel(), arr.ravel(), np.asarray(conc).ravel()
            j = Val.const(1j)
            for i in range(fa.size):
                a = fr[i] if fr[i] is not None else Val.const(float(fc[i].real))
                b = fi[i] if fi[i] is not None else Val.const(float(fc[i].imag))
                fa[i] = a + b * j
            arr = fa.reshape(raw.shape)
            if t.is_conj():
                arr = _f_conj(arr)
            if t.is_neg():
                arr = _f_neg(arr)
            return arr
        mask = np.asarray(_isnone(arr), dtype=bool).reshape(arr.shape)
        if mask.all():
            return None
        arr = np.array(arr, dtype=object, copy=True)
        if part is not None:
            flat = arr.ravel()
            pf = part.ravel()
            for i in range(flat.size):
                if flat[i] is not None:
                    flat[i] = flat[i].real() if pf[i] == 0 else flat[i].imag()
            arr = flat.reshape(arr.shape)
        if mask.any():
            conc = lift_concrete(t)
            arr[mask] = conc[mask]
            if t.is_conj() or t.is_neg():
                # concrete part already resolved; fix only symbolic part below
                pass
        if t.is_conj():
            sym = ~mask
            arr[sym] = _f_conj(arr[sym])
        if t.is_neg():
            sym = ~mask
            arr[sym] = _f_neg(arr[sym])
        return arr

    def arr(self, x, like_shape=None) -> np.ndarray:
        """Val array for a tensor (lifting concrete tensors) or python scalar."""
        if isinstance(x, torch.Tensor):
            a = self.get(x)
            if a is None:
                a = lift_concrete(x)
            return a
        return oarr(Val.const(x))

    def write(self, t: torch.Tensor, arr: np.ndarray):
        """store Vals into the storage elements addressed by t (in-place semantics)."""
        objs, cplx = self._entry(t, True)
        if t.is_conj() or t.is_neg():
            raise Unsupported("write through conj/neg view")
        idx = index_map(t)
        a = np.broadcast_to(oarr(arr), idx.shape)
        if t.is_complex() == cplx:
            objs[idx.ravel()] = np.asarray(a, dtype=object).ravel()
            return
        flat = np.asarray(a, dtype=object).ravel()
        if t.is_complex() and not cplx:
            # complex view of real storage: split into the two real slots
            for i, v in zip(idx.ravel().tolist(), flat):
                v = Val.const(v)
                objs[2 * i] = v.real()
                objs[2 * i + 1] = v.imag()
            return
        # real view of complex storage: replace one component of the stored complex value
        conc = tensor_values(t)
        for (i, v), c in zip(zip(idx.ravel().tolist(), flat), np.asarray(conc).ravel()):
            old = objs[i // 2]
            v = Val.const(v)
            if old is None:
                raise Unsupported("partial write into a concrete complex element")
            objs[i // 2] = (v + old.imag() * Val.const(1j)) if i % 2 == 0 else (old.real() + v * Val.const(1j))

    def set_new(self, t: torch.Tensor, arr: np.ndarray):
        self.write(t, arr)

    def bind(self, t: torch.Tensor, arr):
        self.write(t, np.asarray(arr, dtype=object).reshape(tuple(t.shape)))

    def clear(self, t: torch.Tensor):
        e = self.mem.get(_skey(t))
        if e is not None:
            objs, cplx = e
            objs[self._idx(t, cplx).ravel()] = None

    # ------------------------------------------------------------------ validation
    def check(self, name: str, t: torch.Tensor, arr: np.ndarray | None = None):
        if not self.validate:
            return
        if arr is None:
            arr = self.get(t)
            if arr is None:
                return
        real = tensor_values(t)
        if real.shape != arr.shape:
            raise TranslatorMismatch(f"{name}: shadow shape {arr.shape} != tensor shape {real.shape}")
        fa = arr.ravel()
        fr = real.ravel()
        env = self.ctx.env
        for i in range(fa.size):
            v = fa[i]
            if v is None:
                continue
            c = v.concrete(env, self.memo)
            r = fr[i].item()
            if v.kind == "lin" and v.re.op == "var" and v.re.data.startswith("ARG#"):
                d = (float(c) - float(r)) % (2 * math.pi)
                if min(d, 2 * math.pi - d) < 1e-6:
                    continue
            if not V.close(c, r, rtol=1e-6, atol=1e-8):
                raise TranslatorMismatch(
                    f"{name}: element {i}: shadow evaluates to {c!r} but torch computed {r!r}; shadow={v!r}"
                )
        self.n_validated += 1

    # ------------------------------------------------------------------ dispatch
    def __torch_dispatch__(self, func, types, args=(), kwargs=None):
        kwargs = kwargs or {}
        name = opname(func)
        self.ops_seen[name] = self.ops_seen.get(name, 0) + 1
        flat_in, _ = tree_flatten((args, kwargs))
        tin = [a for a in flat_in if isinstance(a, torch.Tensor)]
        shadowed = [a for a in tin if self.has(a)]

        stub = STUBS.get(name)
        if stub is not None:
            out = func(*args, **kwargs)
            stub(self, func, args, kwargs, out)
            return out

        if not shadowed:
            out = func(*args, **kwargs)
            # a concrete write over shadowed storage makes those elements concrete again
            if func._schema.is_mutable:
                for a in tin:
                    if _skey(a) in self.mem and self._is_written(func, args, kwargs, a):
                        self.clear(a)
            return out

        self.ops_shadowed[name] = self.ops_shadowed.get(name, 0) + 1
        if self.trace is not None:
            self.trace.append(name)

        if name in LEAK_OPS:
            out = func(*args, **kwargs)
            self._leak(name, args, out)
            return out

        h = HANDLERS.get(name)
        mutable = func._schema.is_mutable
        if mutable:
            # compute the new shadow BEFORE the real op overwrites concrete operands
            target = self._mutated(func, args, kwargs)
            if name in MOVE_OPS:
                res = self._moved(func, args, kwargs, MOVE_OPS[name], None)
            elif h is None:
                raise Unsupported(f"no shadow handler for in-place {name} (shadowed inputs present)")
            else:
                res = h(self, func, args, kwargs, None)
            out = func(*args, **kwargs)
            if res is not None:
                self.write(target, res)
            self.check(name, target)
            return out

        out = func(*args, **kwargs)
        flat_out, _ = tree_flatten(out)
        touts = [o for o in flat_out if isinstance(o, torch.Tensor)]

        if name in CONCRETE_OUT:
            return out

        in_keys = {_skey(a) for a in tin}
        if touts and all(_skey(o) in in_keys for o in touts):
            # pure view: shadows alias through storage; just validate the read-back
            for o in touts:
                self.check(name, o)
            return out

        if name in MOVE_OPS:
            res = self._moved(func, args, kwargs, MOVE_OPS[name], out)
        elif h is None:
            raise Unsupported(f"no shadow handler for {name} (shadowed inputs present)")
        else:
            res = h(self, func, args, kwargs, out)

        if res is None:
            return out
        if isinstance(res, (list, tuple)):
            for o, r in zip(touts, res):
                if r is not None:
                    self.set_new(o, np.asarray(r, dtype=object).reshape(tuple(o.shape)))
                    self.check(name, o)
        else:
            o = touts[0]
            r = np.asarray(res, dtype=object)
            if r.shape != tuple(o.shape):
                if r.size == o.numel():
                    r = r.reshape(tuple(o.shape))
                else:
                    r = np.broadcast_to(r, tuple(o.shape))
            self.set_new(o, r)
            self.check(name, o)
        return out

    def _is_written(self, func, args, kwargs, a) -> bool:
        try:
            return a is self._mutated(func, args, kwargs)
        except Exception:
            return True

    @staticmethod
    def _mutated(func, args, kwargs):
        sch = func._schema
        for i, arg in enumerate(sch.arguments):
            if arg.alias_info is not None and arg.alias_info.is_write:
                if arg.kwarg_only:
                    return kwargs[arg.name]
                return args[i] if i < len(args) else kwargs[arg.name]
        raise Unsupported(f"cannot find mutated argument of {func}")

    # ------------------------------------------------------------------ leaks
    def _leak(self, name, args, out):
        t = args[0]
        if name in ("aten.equal.default", "aten.allclose.default"):
            # allclose: floats are reals, so 'close' is modelled as 'equal' (broadcasting the operands)
            a, b = self.arr(args[0]), self.arr(args[1])
            if a.shape != b.shape:
                a, b = np.broadcast_arrays(a, b)
            conds = [x.eq(y).re for x, y in zip(a.ravel(), b.ravel())]
            c = T.and_(*conds)
            self.ctx.pc.append((c if out else T.not_(c), "torch.equal"))
            return
        a = self.get(t)
        v = a.ravel()[0]
        if v.kind == "bool":
            self.ctx.pc.append((v.re if bool(out) else T.not_(v.re), name))
        elif name == "aten.is_nonzero.default":
            c = T.not_(v.eq(0).re)
            self.ctx.pc.append((c if bool(out) else T.not_(c), name))
        else:
            if v.kind != "lin" or v.im is not None:
                raise Unsupported("leak of non-real symbolic scalar into python")
            self.ctx.pc.append((T.eq(v.full_re(), T.const(out)), name + " (concretised)"))

    # ------------------------------------------------------------------ generic data movement
    def _moved(self, func, args, kwargs, spec, out, override=None, positions=False):
        """Run `func` on position tensors to learn where every output element comes from.
        spec = (data_arg_indices, fill_kwarg_or_index|None)."""
        data_idx, fill = spec
        pool = [None]  # position 0 = fill constant
        args2 = list(args)
        kwargs2 = dict(kwargs)

        def mkpos(t):
            a = self.arr(t)
            start = len(pool)
            pool.extend(a.ravel().tolist())
            return torch.arange(start, start + t.numel(), dtype=torch.int64).reshape(tuple(t.shape))

        for i in data_idx:
            if isinstance(i, str):
                if i not in kwargs2:
                    continue
                x = kwargs2[i]
            else:
                if i >= len(args2):
                    continue
                x = args2[i]
            if isinstance(x, torch.Tensor):
                y = mkpos(x)
            elif isinstance(x, (list, tuple)):
                y = [mkpos(e) if isinstance(e, torch.Tensor) else e for e in x]
            else:
                continue
            if isinstance(i, str):
                kwargs2[i] = y
            else:
                args2[i] = y
        fillv = 0.0
        if fill is not None:
            if isinstance(fill, str):
                if fill in kwargs2:
                    fillv = kwargs2[fill]
                    kwargs2[fill] = 0
            elif fill < len(args2):
                fillv = args2[fill]
                args2[fill] = 0
        pool[0] = Val.const(fillv)
        if override is not None:
            for k, v in override.items():
                args2[k] = v
        # drop dtype-ish kwargs that would turn positions into floats
        for k in ("dtype",):
            if k in kwargs2 and kwargs2[k] is not None:
                kwargs2[k] = torch.int64
        J = func(*args2, **kwargs2)
        poolarr = np.empty(len(pool), dtype=object)
        poolarr[:] = pool
        if positions:
            return poolarr, (J.numpy() if isinstance(J, torch.Tensor) else [j.numpy() for j in J])
        if isinstance(J, torch.Tensor):
            return poolarr[J.numpy()]
        return [poolarr[j.numpy()] for j in J]


def needs_pre(f):
    f.needs_pre = True
    return f


STUBS: dict[str, Callable] = {}


def stub(*names):
    def deco(f):
        for n in names:
            STUBS[n] = f
        return f

    return deco


from . import aten_handlers  # noqa: E402,F401  (registers handlers)
from . import backward_handlers  # noqa: E402,F401  (registers the backward-pass handlers)

"""Exact arithmetic for FFT intermediates: values of the form  sum_t  c_t * t  with t a real Term and
c_t an element of the cyclotomic field Q(zeta_n) (zeta_n = exp(2*pi*i/n)), kept as n rational
coefficients of zeta^0..zeta^(n-1) (reduced modulo zeta^n = 1; canonicalised modulo the cyclotomic
polynomial only when a rational is needed).  This keeps DFT -> pointwise product -> inverse DFT exact,
so that polynomial products computed through the FFT fold to the convolution without the solver."""
from __future__ import annotations

import cmath
import math
from fractions import Fraction

from . import terms as T
from .vals import Unsupported, Val

_PHI: dict[int, list[int]] = {}


def _polydiv(num: list, den: list):
    num = list(num)
    out = [Fraction(0)] * (len(num) - len(den) + 1)
    for i in range(len(num) - len(den), -1, -1):
        q = Fraction(num[i + len(den) - 1]) / den[-1]
        out[i] = q
        for j, d in enumerate(den):
            num[i + j] -= q * d
    return out, num[: len(den) - 1]


def cyclotomic(n: int) -> list:
    if n in _PHI:
        return _PHI[n]
    p = [Fraction(-1)] + [Fraction(0)] * (n - 1) + [Fraction(1)]  # x^n - 1
    for d in range(1, n):
        if n % d == 0:
            p, rem = _polydiv(p, cyclotomic(d))
            assert all(r == 0 for r in rem)
    _PHI[n] = p
    return p


def reduce_mod_phi(coeffs: list, n: int) -> list:
    phi = cyclotomic(n)
    if len(coeffs) < len(phi):
        return list(coeffs) + [Fraction(0)] * (len(phi) - 1 - len(coeffs))
    _, rem = _polydiv(list(coeffs), phi)
    return rem


def cmul(a: tuple, b: tuple, n: int) -> tuple:
    out = [Fraction(0)] * n
    for i, x in enumerate(a):
        if x == 0:
            continue
        for j, y in enumerate(b):
            if y == 0:
                continue
            out[(i + j) % n] += x * y
    return tuple(out)


def cconj(a: tuple, n: int) -> tuple:
    return tuple(a[(-i) % n] for i in range(n))


def zeta_pow(k: int, n: int) -> tuple:
    out = [Fraction(0)] * n
    out[k % n] = Fraction(1)
    return tuple(out)


class CycVal:
    """sum_t coeff_t * t,  coeff_t in Q(zeta_n)."""

    __slots__ = ("n", "d")
    kind = "cyc"
    im = True  # it is a complex quantity
    mu = ()

    def __init__(self, n: int, d: dict):
        self.n = n
        self.d = {t: c for t, c in d.items() if any(c)}

    def key(self):
        return ("cyc", self.n, tuple(sorted((t.id, c) for t, c in self.d.items())))

    def __repr__(self):
        return f"cyc{self.n}<{len(self.d)} terms>"

    @staticmethod
    def lift(v, n):
        if isinstance(v, CycVal):
            if v.n != n:
                raise Unsupported("mixing FFT sizes")
            return v
        v = Val.const(v)
        if v.kind != "lin":
            raise Unsupported("cyc arithmetic with non-lin value")
        d = {}
        re = v.full_re()
        if re is not T.ZERO:
            d[re] = zeta_pow(0, n)
        if v.im is not None and v.im is not T.ZERO:
            # i is in Q(zeta_n) only if 4 | n
            if n % 4:
                raise Unsupported("imaginary unit outside Q(zeta_n)")
            d[v.full_im()] = zeta_pow(n // 4, n)
        return CycVal(n, d)

    def __add__(self, o):
        o = CycVal.lift(o, self.n)
        d = dict(self.d)
        for t, c in o.d.items():
            if t in d:
                d[t] = tuple(x + y for x, y in zip(d[t], c))
            else:
                d[t] = c
        return CycVal(self.n, d)

    __radd__ = __add__

    def __neg__(self):
        return CycVal(self.n, {t: tuple(-x for x in c) for t, c in self.d.items()})

    def __sub__(self, o):
        return self + (-CycVal.lift(o, self.n))

    def __mul__(self, o):
        o = CycVal.lift(o, self.n)
        d: dict = {}
        for t1, c1 in self.d.items():
            for t2, c2 in o.d.items():
                t = T.mul(t1, t2)
                c = cmul(c1, c2, self.n)
                if t.op == "const":
                    # fold constant factors into the coefficient
                    c = tuple(x * t.data for x in c)
                    t = T.ONE
                if t in d:
                    d[t] = tuple(x + y for x, y in zip(d[t], c))
                else:
                    d[t] = c
        return CycVal(self.n, d)

    __rmul__ = __mul__

    def __truediv__(self, o):
        o = Val.const(o)
        if o.kind == "lin" and o.im is None and not o.mu and o.re.op == "const":
            q = 1 / o.re.data
            return CycVal(self.n, {t: tuple(x * q for x in c) for t, c in self.d.items()})
        raise Unsupported("cyc division")

    def conjugate(self):
        return CycVal(self.n, {t: cconj(c, self.n) for t, c in self.d.items()})

    conj = conjugate

    def to_complex(self):
        return self

    def times_zeta(self, k: int):
        z = zeta_pow(k, self.n)
        return CycVal(self.n, {t: cmul(c, z, self.n) for t, c in self.d.items()})

    def to_val(self) -> Val:
        """back to an ordinary Val; real and imaginary parts must be expressible: rational coefficients
        (after reduction modulo the cyclotomic polynomial), or rational multiples of i when 4 | n."""
        re_terms, im_terms = [], []
        for t, c in self.d.items():
            r = reduce_mod_phi(list(c), self.n)
            if all(x == 0 for x in r[1:]):
                if r and r[0] != 0:
                    re_terms.append(T.mul(T.const(r[0]), t))
                continue
            if self.n % 4 == 0:
                # try q0 + q1*i
                i_c = reduce_mod_phi(list(zeta_pow(self.n // 4, self.n)), self.n)
                # solve r = a + b*i_c for rationals a,b (i_c has a single non-zero pattern)
                nz = [k for k in range(1, len(r)) if i_c[k] != 0]
                if nz:
                    b = r[nz[0]] / i_c[nz[0]]
                    rest = [x - b * y for x, y in zip(r, i_c)]
                    if all(x == 0 for x in rest[1:]):
                        if rest[0] != 0:
                            re_terms.append(T.mul(T.const(rest[0]), t))
                        im_terms.append(T.mul(T.const(b), t))
                        continue
            raise Unsupported("cyclotomic coefficient is not rational")
        re = T.add(*re_terms) if re_terms else T.ZERO
        if im_terms:
            return Val("lin", re, T.add(*im_terms))
        return Val("lin", re, T.ZERO)

    def real(self):
        return self.to_val().real()

    def concrete(self, env=None, memo=None):
        from . import vals as V

        env = V.ctx().env if env is None else env
        z = cmath.exp(2j * math.pi / self.n)
        tot = 0j
        for t, c in self.d.items():
            tv = T.evaluate1(t, env, memo)
            cv = sum(float(x) * z**k for k, x in enumerate(c))
            tot += tv * cv
        return tot

"""Bounded families of symbolic circuits.  A family member is a small JSON-able descriptor `d`;
`build(d)` constructs the symbolic circuit deterministically from the *current* cirkit source."""
from __future__ import annotations

import functools
import itertools
import random

import numpy as np

from cirkit.symbolic import layers as SL
from cirkit.symbolic import parameters as SP
from cirkit.symbolic.circuit import Circuit
from cirkit.symbolic.initializers import NormalInitializer
from cirkit.symbolic.parameters import Parameter, TensorParameter, mixing_weight_factory
from cirkit.templates import region_graph as RGM
from cirkit.utils.scope import Scope

from .harness import LeafSpec

# ---------------------------------------------------------------------------------------------
# parameter factories
# ---------------------------------------------------------------------------------------------


def _raw(shape):
    return Parameter.from_input(TensorParameter(*shape, initializer=NormalInitializer()))


def _softmax(shape, axis=-1):
    return Parameter.from_unary(SP.SoftmaxParameter(shape, axis=axis), TensorParameter(*shape, initializer=NormalInitializer()))


def _exp(shape):
    return Parameter.from_unary(SP.ExpParameter(shape), TensorParameter(*shape, initializer=NormalInitializer()))


def weight_factory(kind: str):
    if kind == "raw":
        return _raw
    if kind == "softmax":
        return _softmax
    if kind == "exp":
        return _exp
    if kind == "clamp01":
        return lambda shape: Parameter.from_unary(SP.ClampParameter(shape, vmin=0.0, vmax=1.0), TensorParameter(*shape, initializer=NormalInitializer()))
    if kind == "default":
        return None
    raise ValueError(kind)


def input_factory(kind: str):
    """kinds: cat-softmax (default parameterisation), cat-probs, cat-logits, embedding, binomial,
    binomial-logits, gaussian, gaussian-lp, poly1, poly2"""

    def f(scope, K):
        if kind == "cat-softmax":
            return SL.CategoricalLayer(scope, K, num_categories=3)
        if kind == "cat2-softmax":
            return SL.CategoricalLayer(scope, K, num_categories=2)
        if kind == "cat-probs":
            return SL.CategoricalLayer(scope, K, num_categories=3, probs=_raw((K, 3)))
        if kind == "cat2-probs":
            return SL.CategoricalLayer(scope, K, num_categories=2, probs=_raw((K, 2)))
        if kind == "cat-logits":
            return SL.CategoricalLayer(scope, K, num_categories=3, logits=_raw((K, 3)))
        if kind == "cat2-logits":
            return SL.CategoricalLayer(scope, K, num_categories=2, logits=_raw((K, 2)))
        if kind == "embedding":
            return SL.EmbeddingLayer(scope, K, num_states=3)
        if kind == "embedding2":
            return SL.EmbeddingLayer(scope, K, num_states=2)
        if kind == "binomial":
            return SL.BinomialLayer(scope, K, total_count=2)
        if kind == "binomial-probs":
            return SL.BinomialLayer(scope, K, total_count=2, probs=_raw((K,)))
        if kind == "binomial-logits":
            return SL.BinomialLayer(scope, K, total_count=2, logits=_raw((K,)))
        if kind == "gaussian":
            return SL.GaussianLayer(scope, K, mean=_raw((K,)), stddev=_raw((K,)))
        if kind == "gaussian-default":
            return SL.GaussianLayer(scope, K)
        if kind == "gaussian-lp":
            return SL.GaussianLayer(scope, K, mean=_raw((K,)), stddev=_raw((K,)), log_partition=_raw((K,)))
        if kind.startswith("poly"):
            deg = int(kind[4:])
            return SL.PolynomialLayer(scope, K, degree=deg)
        raise ValueError(kind)

    return f


# ---------------------------------------------------------------------------------------------
# region-graph circuits
# ---------------------------------------------------------------------------------------------


def region_graph(d: dict):
    a = d["algo"]
    n = d.get("nvars", 4)
    rep = d.get("rep", 1)
    if a == "rbt":
        return RGM.RandomBinaryTree(n, depth=d.get("depth"), num_repetitions=rep, seed=d.get("rgseed", 42))
    if a == "lt":
        return RGM.LinearTree(n, num_repetitions=rep, randomize=d.get("randomize", False), seed=d.get("rgseed", 42))
    if a == "ff":
        return RGM.FullyFactorized(n, num_repetitions=rep)
    if a == "qt":
        return RGM.QuadTree(tuple(d["shape"]), num_patch_splits=d.get("splits", 2))
    if a == "qg":
        return RGM.QuadGraph(tuple(d["shape"]))
    if a == "pd":
        return RGM.PoonDomingos(tuple(d["shape"]), delta=d.get("delta", 1), max_depth=d.get("max_depth"))
    raise ValueError(a)


def build_rg(d: dict) -> Circuit:
    rg = region_graph(d)
    K = d.get("K", 2)
    kw = dict(
        input_factory=input_factory(d.get("input", "cat-softmax")),
        num_input_units=d.get("Kin", K),
        num_sum_units=K,
        num_classes=d.get("classes", 1),
    )
    if d.get("explicit"):
        wf = weight_factory(d.get("weights", "raw"))
        prod = SL.HadamardLayer if d.get("explicit") == "hadamard" else SL.KroneckerLayer
        if prod is SL.KroneckerLayer:
            def sum_f(ki, ko):
                return SL.SumLayer(ki, ko, weight_factory=wf)
        else:
            def sum_f(ki, ko):
                return SL.SumLayer(ki, ko, weight_factory=wf)
        kw.update(sum_factory=sum_f, prod_factory=lambda k, ar: prod(k, arity=ar))
    else:
        kw.update(sum_product=d.get("sp", "cp"))
        wf = weight_factory(d.get("weights", "raw"))
        kw.update(sum_weight_factory=wf)
        if d.get("mixing"):
            kw.update(
                nary_sum_weight_factory=functools.partial(
                    mixing_weight_factory, param_factory=weight_factory(d.get("mixing"))
                )
            )
    return rg.build_circuit(**kw)


# ---------------------------------------------------------------------------------------------
# hand-built skeletons that the templates never produce
# ---------------------------------------------------------------------------------------------


def build_hand(d: dict) -> Circuit:
    name = d["name"]
    K = d.get("K", 2)
    inp = input_factory(d.get("input", "cat-softmax"))
    wf = weight_factory(d.get("weights", "raw"))

    def S(ki, ko, arity=1, w=None):
        return SL.SumLayer(ki, ko, arity=arity, weight_factory=w if w is not None else wf)

    layers: list = []
    ins: dict = {}

    def add(layer, inputs=()):
        layers.append(layer)
        if inputs:
            inputs = list(inputs)
            # 'revins': order-sensitive layers (Kronecker, n-ary sums) list their inputs in the reverse of the
            # order in which the input layers were created (and get folded)
            if d.get("revins") and (isinstance(layer, SL.KroneckerLayer) or (isinstance(layer, SL.SumLayer) and len(inputs) > 1)):
                inputs = inputs[::-1]
            ins[layer] = inputs
        return layer

    vid = d.get("ids", [0, 1, 2, 3])

    if name == "shared":
        # one product feeding two sum heads (multi-output, shared sub-circuit)
        a, b = add(inp(Scope([vid[0]]), K)), add(inp(Scope([vid[1]]), K))
        h = add(SL.HadamardLayer(K, 2), [a, b])
        s1, s2 = add(S(K, K), [h]), add(S(K, K), [h])
        return Circuit(layers, ins, [s1, s2])
    if name == "out-feeds":
        # an output layer that also feeds another layer
        a, b, c = (add(inp(Scope([vid[i]]), K)) for i in range(3))
        h = add(SL.HadamardLayer(K, 2), [a, b])
        s1 = add(S(K, K), [h])
        h2 = add(SL.HadamardLayer(K, 2), [s1, c])
        s2 = add(S(K, K), [h2])
        return Circuit(layers, ins, [s2, s1] if d.get("swap") else [s1, s2])
    if name == "prod-out":
        # a product layer that is itself an output and has one sum consumer
        a, b = add(inp(Scope([vid[0]]), K)), add(inp(Scope([vid[1]]), K))
        h = add((SL.KroneckerLayer if d.get("kron") else SL.HadamardLayer)(K, 2), [a, b])
        s1 = add(S(h.num_output_units, h.num_output_units), [h])
        return Circuit(layers, ins, [h, s1])
    if name == "sum-sum":
        # two consecutive dense layers (sum collapse) on top of a product; first sum is also output
        a, b = add(inp(Scope([vid[0]]), K)), add(inp(Scope([vid[1]]), K))
        h = add(SL.HadamardLayer(K, 2), [a, b])
        K2 = K if d.get("both") else K + 1
        s1 = add(S(K, K2), [h])
        s2 = add(S(K2, K2 if d.get("both") else 1), [s1])
        outs = [s2, s1] if d.get("both") else [s2]
        return Circuit(layers, ins, outs)
    if name == "nary-sum":
        # sum of arity 2..3 over products with the same scope
        ar = d.get("arity", 2)
        hs = []
        for _ in range(ar):
            a, b = add(inp(Scope([vid[0]]), K)), add(inp(Scope([vid[1]]), K))
            hs.append(add(SL.HadamardLayer(K, 2), [a, b]))
        if d.get("mixing"):
            w = functools.partial(mixing_weight_factory, param_factory=weight_factory(d["mixing"]))
            s = add(SL.SumLayer(K, K, arity=ar, weight_factory=w), hs)
        else:
            s = add(S(K, d.get("Ko", 1), arity=ar), hs)
        return Circuit(layers, ins, [s])
    if name == "kron3":
        a, b, c = (add(inp(Scope([vid[i]]), K)) for i in range(3))
        k = add(SL.KroneckerLayer(K, 3), [a, b, c])
        s = add(S(K**3, d.get("Ko", 1)), [k])
        return Circuit(layers, ins, [s])
    if name == "had3":
        a, b, c = (add(inp(Scope([vid[i]]), K)) for i in range(3))
        k = add(SL.HadamardLayer(K, 3), [a, b, c])
        s = add(S(K, d.get("Ko", 1)), [k])
        return Circuit(layers, ins, [s])
    if name == "nested":
        # ((x_a * x_b) -> sum) * x_c -> sum ; ids arbitrary (scope numbering)
        a, b, c = (add(inp(Scope([vid[i]]), K)) for i in range(3))
        h = add(SL.HadamardLayer(K, 2), [b, a] if d.get("rev") else [a, b])
        s1 = add(S(K, K), [h])
        h2 = add(SL.HadamardLayer(K, 2), [c, s1] if d.get("rev") else [s1, c])
        s2 = add(S(K, d.get("Ko", 1)), [h2])
        return Circuit(layers, ins, [s2])
    if name == "single-input":
        a = add(inp(Scope([vid[0]]), K))
        if d.get("sum"):
            s = add(S(K, d.get("Ko", 1)), [a])
            return Circuit(layers, ins, [s])
        return Circuit(layers, ins, [a])
    if name == "two-inputs-out":
        # multi-output circuit whose outputs are input layers of different variables
        a, b = add(inp(Scope([vid[0]]), K)), add(inp(Scope([vid[1]]), K))
        return Circuit(layers, ins, [b, a])
    if name == "interleaved":
        # input layers of two families in interleaved variable order, each followed by its own dense sum
        kinds = d.get("inputs", ["gaussian", "cat-logits", "gaussian"])
        xs = [add(input_factory(kd)(Scope([vid[i]]), K)) for i, kd in enumerate(kinds)]
        ds = [add(S(K, K), [x_]) for x_ in xs]
        h = add(SL.HadamardLayer(K, len(ds)), ds)
        s = add(S(K, d.get("Ko", 1)), [h])
        return Circuit(layers, ins, [s])
    if name == "mixed-inputs":
        # different input families with the same unit count (they fold apart / integrate differently)
        kinds = d.get("inputs", ["embedding", "cat-logits", "embedding"])
        xs = [add(input_factory(kd)(Scope([vid[i]]), K)) for i, kd in enumerate(kinds)]
        h = add(SL.HadamardLayer(K, len(xs)), xs)
        s = add(S(K, d.get("Ko", 1)), [h])
        return Circuit(layers, ins, [s])
    if name == "param-logsoftmax":
        # categorical layer whose logits are log(softmax(theta, axis)) -- the LogSoftmax rewrite target
        ax = d.get("axis", -1)
        N = 3
        sm = Parameter.from_unary(SP.SoftmaxParameter((K, N), axis=ax), TensorParameter(K, N, initializer=NormalInitializer()))
        lg = Parameter.from_unary(SP.LogParameter((K, N)), sm)
        a = add(SL.CategoricalLayer(Scope([vid[0]]), K, num_categories=N, logits=lg))
        b = add(inp(Scope([vid[1]]), K))
        h = add(SL.HadamardLayer(K, 2), [a, b])
        s = add(S(K, 1), [h])
        return Circuit(layers, ins, [s])
    if name == "param-shared-node":
        # parameter graphs in which the INNER node of an optimizer rewrite pattern has a second consumer:
        #   which == "softmax": weight = softmax(theta) * exp(log(softmax(theta)))   (Log o Softmax pattern, shared softmax)
        #   which == "outer":   value  = reduce_sum(op, 1) * reduce_sum(op, 1) with ONE shared outer product op
        which = d.get("which", "softmax")
        if which == "softmax":
            a = add(inp(Scope([vid[0]]), K))
            b = add(inp(Scope([vid[1]]), K))
            h = add(SL.HadamardLayer(K, 2), [a, b])
            th = TensorParameter(1, K, initializer=NormalInitializer())
            sm = SP.SoftmaxParameter((1, K), axis=-1)
            lg = SP.LogParameter((1, K))
            ex = SP.ExpParameter((1, K))
            hd = SP.HadamardParameter((1, K), (1, K))
            # softmax * exp(log(softmax)): the softmax node feeds the Log node AND the Hadamard node
            w = Parameter([th, sm, lg, ex, hd], {sm: [th], lg: [sm], ex: [lg], hd: [sm, ex]}, [hd])
            s = add(SL.SumLayer(K, 1, weight=w), [h])
            return Circuit(layers, ins, [s])
        t1 = TensorParameter(K, 3, initializer=NormalInitializer())
        t2 = TensorParameter(K, 3, initializer=NormalInitializer())
        op_ = SP.OuterProductParameter((K, 3), (K, 3), axis=0)
        r1 = SP.ReduceSumParameter(op_.shape, axis=1)
        r2 = SP.ReduceSumParameter(op_.shape, axis=1)
        hd = SP.HadamardParameter(r1.shape, r2.shape)
        val = Parameter([t1, t2, op_, r1, r2, hd], {op_: [t1, t2], r1: [op_], r2: [op_], hd: [r1, r2]}, [hd])
        Kc = val.shape[0]
        c = add(SL.ConstantValueLayer(Kc, log_space=False, value=val))
        a2 = add(input_factory("embedding")(Scope([vid[0]]), Kc))
        h2 = add(SL.HadamardLayer(Kc, 2), [a2, c])
        s2 = add(S(Kc, 1), [h2])
        return Circuit(layers, ins, [s2])
    if name == "param-reducesum-outerprod":
        # constant layer whose value is reduce_sum(outer_product(p1, p2, axis=oa), axis=ra) -- the einsum rewrite target
        oa, ra = d.get("outer", 0), d.get("reduce", 1)
        s1, s2 = (2, 3), (2, 3)
        s2 = list(s2)
        s2[oa] = 2 if oa == 1 else 3
        s2 = tuple(s2)
        op_ = Parameter.from_binary(
            SP.OuterProductParameter(s1, s2, axis=oa),
            TensorParameter(*s1, initializer=NormalInitializer()),
            TensorParameter(*s2, initializer=NormalInitializer()),
        )
        rs = Parameter.from_unary(SP.ReduceSumParameter(op_.shape, axis=ra), op_)
        Kc = rs.shape[0]
        c = add(SL.ConstantValueLayer(Kc, log_space=False, value=rs))
        a = add(input_factory(d.get("input", "embedding"))(Scope([vid[0]]), Kc))
        h = add(SL.HadamardLayer(Kc, 2), [a, c])
        s = add(S(Kc, 1), [h])
        return Circuit(layers, ins, [s])
    if name == "hetero-params":
        # two same-shaped sum layers on one level with different parameter-graph structure
        a, b = add(inp(Scope([vid[0]]), K)), add(inp(Scope([vid[1]]), K))
        s1 = add(SL.SumLayer(K, K, weight_factory=_softmax), [a])
        s2 = add(SL.SumLayer(K, K, weight_factory=_exp), [b])
        h = add(SL.HadamardLayer(K, 2), [s1, s2])
        s = add(S(K, 1), [h])
        return Circuit(layers, ins, [s])
    raise ValueError(name)


def build(d: dict) -> Circuit:
    if d["kind"] == "rg":
        return build_rg(d)
    if d["kind"] == "hand":
        return build_hand(d)
    raise ValueError(d["kind"])


# ---------------------------------------------------------------------------------------------
# leaf roles -> constraints
# ---------------------------------------------------------------------------------------------

_ACTIVATIONS = (
    SP.SoftmaxParameter,
    SP.LogSoftmaxParameter,
    SP.ExpParameter,
    SP.SigmoidParameter,
    SP.ScaledSigmoidParameter,
    SP.SoftplusParameter,
    SP.SquareParameter,
    SP.ClampParameter,
)


def leaf_specs(sc: Circuit, monotone: bool, normalized: bool = False) -> dict:
    """LeafSpec for every TensorParameter *owned* by a layer of sc (or by the layer wrapped in an
    evidence layer).  `monotone`: raw weights / embeddings are assumed positive (needed in log space).
    `normalized`: raw probability tables are additionally assumed to sum to one."""
    specs: dict = {}

    def visit(sl):
        for pname, pg in sl.params.items():
            has_act = any(isinstance(n, _ACTIVATIONS) for n in pg.nodes)
            for n in pg.nodes:
                if not isinstance(n, TensorParameter) or isinstance(n, SP.ConstantParameter):
                    continue
                if n in specs:
                    continue
                cplx = n.dtype.name == "COMPLEX"
                if has_act:
                    specs[n] = LeafSpec(complex=cplx)
                elif pname == "probs":
                    specs[n] = LeafSpec(unit_interval=True, normalized_axis=(-1 if (normalized and len(n.shape) == 2) else None))
                elif pname == "stddev":
                    specs[n] = LeafSpec(positive=True)
                elif pname in ("logits", "mean", "log_partition", "coeff", "observation"):
                    specs[n] = LeafSpec(complex=cplx)
                elif pname == "value":
                    specs[n] = LeafSpec(positive=monotone and not getattr(sl, "log_space", False))
                elif pname == "weight":
                    specs[n] = LeafSpec(positive=monotone, complex=cplx)
                else:
                    specs[n] = LeafSpec()
        if isinstance(sl, SL.EvidenceLayer):
            visit(sl.layer)

    def visit_circuit(c):
        if c.operation is not None:
            for o in c.operation.operands:
                visit_circuit(o)
        for sl in c.layers:
            visit(sl)

    visit_circuit(sc)
    return specs


def describe(d: dict) -> str:
    return ",".join(f"{k}={v}" for k, v in sorted(d.items()))


# ---------------------------------------------------------------------------------------------
# operator pipelines
# ---------------------------------------------------------------------------------------------


def apply_ops(sc: Circuit, ops: list, base_desc: dict | None = None) -> Circuit:
    import cirkit.symbolic.functional as SF

    cur = sc
    for op in ops:
        name = op[0]
        if name == "integrate":
            scope = None if len(op) < 2 or op[1] is None else Scope(op[1])
            cur = SF.integrate(cur, scope=scope)
        elif name == "square":
            cur = SF.multiply(cur, cur)
        elif name == "multiply_other":
            other = build(op[1] if len(op) > 1 and op[1] else base_desc)
            cur = SF.multiply(cur, other)
        elif name == "multiply_conj":
            cur = SF.multiply(cur, SF.conjugate(cur))
        elif name == "differentiate":
            cur = SF.differentiate(cur, order=op[1] if len(op) > 1 else 1)
        elif name == "evidence":
            # a list of [variable, value] pairs keeps the ORDER in which the observations are given
            obs_ = dict((int(k), v) for k, v in op[1]) if isinstance(op[1], list) else {int(k): v for k, v in op[1].items()}
            cur = SF.evidence(cur, obs_)
        elif name == "conjugate":
            cur = SF.conjugate(cur)
        elif name == "concatenate":
            cur = SF.concatenate([cur] * (op[1] if len(op) > 1 else 2))
        elif name == "concat":
            # concatenate([cur, *others]) (or [*others, cur] if op[2] == "last")
            others = [build(dd) for dd in op[1]]
            lst = others + [cur] if len(op) > 2 and op[2] == "last" else [cur] + others
            cur = SF.concatenate(lst)
        else:
            raise ValueError(name)
    return cur


def build_pipe(d: dict) -> Circuit:
    base = build(d["base"])
    return apply_ops(base, d["ops"], d["base"])


_build0 = build


def build(d: dict) -> Circuit:  # noqa: F811
    if d["kind"] == "pipe":
        return build_pipe(d)
    sc = _build0(d)
    if d.get("freeze"):
        _freeze(sc, d["freeze"])
    return sc


def _freeze(sc: Circuit, how: str) -> None:
    """mark tensor parameters as non-learnable (how = 'all' | 'odd' | 'inputs' | 'sums')."""
    from .harness import own_leaves

    i = 0
    for sl in sc.layers:
        for _, g in sl.params.items():
            for n in g.nodes:
                if isinstance(n, TensorParameter) and not isinstance(n, SP.ConstantParameter):
                    hit = how == "all" or (how == "odd" and i % 2 == 1) or (how == "inputs" and isinstance(sl, SL.InputLayer)) or (how == "sums" and isinstance(sl, SL.SumLayer))
                    if hit:
                        n.learnable = False
                    i += 1


# ---------------------------------------------------------------------------------------------
# seeded random members (thorough tiers)
# ---------------------------------------------------------------------------------------------


def random_members(seed: int, n: int, normalized: bool = False, inputs=None) -> list[dict]:
    """random region-graph circuits: algorithm arguments, layer abstraction / explicit factories, unit counts,
    classes, input and weight parameterisations drawn from the ranges the fixed lists cover piecewise."""
    rnd = random.Random(104729 * seed + 7)
    out = []
    inputs = inputs or (["cat-softmax", "cat2-softmax"] if normalized else ["cat-softmax", "cat-logits", "cat2-probs", "embedding", "embedding2"])
    while len(out) < n:
        a = rnd.choice(["rbt", "rbt", "lt", "lt", "ff", "qt", "qg", "pd"])
        d = {"kind": "rg", "algo": a}
        if a in ("rbt", "lt", "ff"):
            d["nvars"] = rnd.randint(2, 5)
            d["rep"] = rnd.choice([1, 1, 2])
            if a == "rbt":
                d["rgseed"] = rnd.randrange(10)
                if rnd.random() < 0.3:
                    d["depth"] = 2 if (d["nvars"] >= 4 and rnd.random() < 0.5) else 1
            if a == "lt":
                d["randomize"] = rnd.random() < 0.5
                d["rgseed"] = rnd.randrange(10)
        else:
            d["shape"] = rnd.choice([[1, 2, 2], [1, 1, 3], [2, 1, 2], [1, 2, 3]])
            if a == "qt":
                d["splits"] = rnd.choice([2, 4])
            if a == "pd":
                d["delta"] = 1
        K = rnd.choice([1, 2, 2, 3])
        d["K"] = K
        d["input"] = rnd.choice(inputs)
        w = "softmax" if normalized else rnd.choice(["raw", "softmax", "exp"])
        d["weights"] = w
        if not normalized and rnd.random() < 0.15:
            d["explicit"] = rnd.choice(["hadamard", "kronecker"])
            d["input"] = "embedding"
            d["weights"] = "raw"
        else:
            d["sp"] = rnd.choice(["cp", "cp-t", "tucker"])
            if d["sp"] == "cp" and rnd.random() < 0.3:
                d["Kin"] = rnd.choice([1, 2, 3])
            if d["sp"] == "tucker" and K == 3 and a in ("qt", "qg", "pd"):
                d["K"] = 2  # arity-4 Kronecker of 3 units = 81 units: keep the family small
            if d.get("rep", 1) > 1 or a in ("qg", "pd"):
                d["mixing"] = "softmax" if normalized else rnd.choice(["raw", "softmax"])
        if rnd.random() < 0.2:
            d["classes"] = rnd.choice([2, 3])
        out.append(d)
    return out

#!/usr/bin/env python3
"""Regenerates /verif/MANIFEST.json from the table below (checks that exist under checks/)."""
import json
import os

ROOT = os.path.dirname(os.path.dirname(os.path.abspath(__file__)))

TV = "translation_validation"
MC = "model_checking"

A_NOTE = (
    "bounded (family members listed in evidence 'bounds'); floats treated as reals; E[.]/MAX#k/SM atoms over-approximate "
    "exp/max/softmax (unsat sound, sat replayed on the real code before it is reported); aten handlers validated "
    "numerically on every op of every run; refsem / operator definitions are the oracle"
)
A_TECH = "symbolic execution of the real torch code (ATen-dispatch shadow engine) + z3 QF_NRA validity queries per output entry"
B_NOTE = "bounded skeleton families and id ranges (see evidence); z3 bit-vector model of frozenset inside the real Scope; all Python paths explored (budget reported)"
B_TECH = "path-exhaustive symbolic execution of the real Python predicates/operators on z3 bit-vector scopes + z3 per-path assertions"

CHECKS = {
    "C01": (TV, "shadow", A_TECH, A_NOTE, "Each compiled program (circuit x semiring x fold/optimize x batch size) is executed once symbolically with ALL tensor-parameter entries and ALL input entries as solver variables; z3 decides per output entry equality with an independent reference semantics of the symbolic circuit (unsat = holds for all parameter values and inputs of that program; sat = counterexample replayed on the real code)."),
    "C02": (TV, "shadow", A_TECH, A_NOTE, "The four compilations of each circuit / operator pipeline are tied through the compiler's symbolic->compiled parameter map (same solver variables written into every compilation); z3 decides equality of every output entry with the unfolded-unoptimized compilation and with the reference semantics; the map is audited (registered, in range, shape, pairwise disjoint slices)."),
    "C03": (TV, "shadow", A_TECH, A_NOTE, "integrate(c,Z) (also nested) is built by the real operator, compiled and executed symbolically; z3 decides compiled(y) == sum_z refsem(c)(y,z) (explicit finite sums; Gaussian integrals layerwise with the axiom int N = 1) for all parameter values and remaining-variable assignments."),
    "C04": (TV, "shadow", A_TECH, A_NOTE, "multiply results (squares, distinct operands, chains, evidence-conditioned operands) are compiled and executed symbolically; z3 decides output (i,j),(k1,k2) == c1_i[k1]*c2_j[k2]; refusals are tallied; Gaussian products through solver-proved exponent / square-root lemmas, FFT polynomial products in exact cyclotomic arithmetic."),
    "C05": (TV, "shadow", A_TECH, A_NOTE, "differentiate(c,k) is compiled and executed symbolically; z3 decides, per output POSITION, equality with the exact symbolic k-th partial derivative of the reference term w.r.t. the variables in increasing id order, followed by c itself; variable ids up to 40, nested products, orders 1-3."),
    "C06": (TV, "shadow", A_TECH, A_NOTE, "evidence(c,obs) compiled and executed symbolically against refsem(c) with the observed variables substituted (observation values concrete and, in the symbolic_obs variants, solver variables over the domain); concatenate (incl. nested, operands of different depth) against the operands' denotations in the given order."),
    "C07": (TV, "shadow", A_TECH, A_NOTE, "conjugate of base circuits, products, integrals (real parameters; complex semiring) compiled and executed symbolically; z3 decides compiled == conj(denotation of the operand); conjugate(conjugate(c)) and integrals of conjugates are cases of the same query."),
    "C08": (MC, "symx", B_TECH, B_NOTE, "The real predicates (is_smooth, is_decomposable, is_structured_decomposable, are_compatible) run on circuits whose leaf variable ids are symbolic; every path is explored and z3 decides per path: answer == set-theoretic definition (iff for smooth/decomposable, => for structured/compatible), invariance under product-input permutation, variable renumbering and argument swap."),
    "C09": (MC, "symx", B_TECH, B_NOTE, "The real operators run with symbolic leaf ids, symbolic integration/observation sets and symbolic order; per path z3 decides: returned => preconditions hold, StructuralPropertyError => structure invalid, ValueError => argument invalid; on return: result smooth/decomposable, documented scope and number of outputs, SD preserved and compatible with operands (multiply), flags preserved (conjugate); query constructors likewise."),
    "C10": (TV, "shadow", A_TECH + "; aliasing audit on the real modules across a real update history", A_NOTE, "Operands and derived circuit are compiled in one context; solver variables are written ONLY into the operand's tensors (locations snapshotted before the derived circuit is compiled) = state after an arbitrary history of in-place updates; both are executed symbolically under one shadow memory and z3 decides derived == operator definition applied to the operand and operand == its semantics; object identity of every learnable tensor of the derived circuit with an operand tensor and registry stability are audited after compile and after each step of a real history (reset, SGD step through the derived circuit, load_state_dict, reset of the derived circuit)."),
    "C13": (TV, "shadow", "symbolic execution of the autograd BACKWARD pass of the real compiled circuit under the ATen-dispatch shadow engine + z3 QF_NRA identity per gradient entry against the exact symbolic derivative of the reference semantics", A_NOTE + "; MAX#k shifts are free symbols whose gradient contribution must cancel; divisions introduced by the backward are by intermediate circuit values assumed non-zero", "out[o,k].backward() of each compiled circuit runs under the shadow engine (index_put accumulate, softmax / amax backward, SafeLog / ComplexSafeLog backward, complex views); the gradient slice of every symbolic tensor parameter (through the registry, so mapped back from folded tensors) and of continuous inputs is decided equal to d ref / d theta (resp. (d ref / d theta) / ref in log space) for all parameter values; all flag pairs are compared with the same derivative, hence flag independence; requires_grad follows 'learnable'."),
    "C15": (TV, "shadow", "symbolic execution of SamplingQuery under the ATen-dispatch shadow engine with aten.multinomial stubbed by fresh draw symbols carrying the probability row passed by the real code; exact output distribution by conditioning on the draws; z3 QF_NRA identity per assignment", A_NOTE, "The sampler runs symbolically; the exact distribution of every returned row (a polynomial in the circuit parameters, computed by conditioning the returned term on the draw symbols) is decided equal to the circuit's reference probability for EVERY complete assignment and all parameter values (covers support and column filling); rows of one call depend on disjoint draws; all flag pairs, sums of arity 1-3, Hadamard / Kronecker / CP-T layers, structural zeros."),
    "C16": (MC, "symx", B_TECH, B_NOTE + "; the construction algorithms themselves run on concrete arguments (their outputs are the skeletons)", "The real RegionGraph constructor, is_structured_decomposable and build_circuit (cp, cp-t, tucker, explicit factories) run on symbolic scopes over hand-written skeletons (incl. malformed ones) and over the outputs of every construction algorithm (RandomBinaryTree, LinearTree, FullyFactorized, QuadTree, QuadGraph, PoonDomingos, ChowLiuTree, tree2rg) on bounded arguments; per path z3 decides: rejected iff malformed, SD flag iff partitions structured, circuit smooth / decomposable / same scope / one output per root with num_classes units / SD when the flag is; algorithm outputs additionally cover the requested variables and survive dump/load."),
    "C17": (TV, "shadow", "symbolic execution of compilation / reset_parameters under the ATen-dispatch shadow engine with the random sources replaced by contract stubs (fresh tagged symbols) + z3 for the simplex / bound obligations", "bounded parameter sets (see evidence); the stubs carry call arguments and contracts only, no distributional claim", "Compilation and two poisoned resets run symbolically with aten.normal_/uniform_/_sample_dirichlet stubbed by fresh symbols tagged with their call arguments; per symbolic parameter slice: constants/arrays equal the initialiser value, uniform/normal entries are fresh draws of the parameter's own initialiser (z3: a <= u <= b), Dirichlet entries sum to one along the DECLARED axis (z3, from the stub's last-axis simplex contract) with the right concentration per position; dtype and requires_grad follow the symbolic parameter; all flag pairs."),
    "C18": (MC, "symx", "bounded exploration of call histories: the history is a vector of solver variables (op codes), z3 enumerates every feasible history path by path (enabledness as path conditions) and the real objects execute it against an independent model", "bounded history length and alphabet (see evidence); sequential histories only", "All histories of compile / operator-function / lookup / context enter-exit (normal and exceptional, nested, reused) calls up to the bound are executed on real PipelineContext / TorchCompiler objects; after every call the registry (both directions, memoisation, once-only and operands-first compilation order) and the active context / operator registry are compared with an independent model."),
    "C19": (TV, "shadow", A_TECH + "; state_dict/load_state_dict executed under the shadow engine", A_NOTE, "The circuit (and pipeline) is compiled in two independent contexts; A's tensors hold solver variables, B fresh values; the real state_dict()/load_state_dict(strict) (then reset, load again) run under the shadow engine and z3 decides B(x) == A(x) per output entry for all parameter values and inputs, for operands and derived circuits; every learnable / frozen non-constant tensor is in the state dict (exactly once by storage for circuits without references), keys are deterministic."),
    "C11": (TV, "shadow", A_TECH + "; symbolic integration masks with path exploration", A_NOTE, "IntegrateQuery.__call__ is executed symbolically with the integration mask entries as solver variables (paths over the mask explored within a stated budget) and with every accepted mask format (Scope, list of Scopes, bool/int tensor); z3 decides, per batch row, equality with the reference marginal (sum / Gaussian integral over exactly the masked variables); empty scopes, full scopes and per-row different masks included."),
    "C12": (TV, "shadow", A_TECH, A_NOTE, "Template circuits built with normalised parameterisations (image_data, tabular_data, hmm, fully_factorized, region graphs with softmax weights and mixing) are integrated over the whole scope, compiled and executed symbolically; z3 decides Z(theta) == 1 for all parameter values (softmax abstracted to the open simplex), non-negativity of the denotation and definedness of every log."),
    "C14": (TV, "shadow", A_TECH, A_NOTE, "Parameter computational graphs (every symbolic parameter node type, 142 graph builders) are compiled unfolded and folded and executed symbolically with all tensor entries as solver variables; z3 decides per entry equality with refsem.eval_parameter, and the optimizer's parameter rewrites are checked on circuits whose weights are such graphs (optimize on/off)."),
    "C20": (TV, "shadow", A_TECH, A_NOTE, "Template circuits (cp, tucker, tensor_train, hmm, fully_factorized, logic decision graphs) are compiled and executed symbolically with all factor / weight tensors and index tuples as solver variables; z3 decides equality with the documented contraction / latent-path sum / truth table written over the factor tensors looked up by variable id (never through the wiring); per-variable arguments must reach the input layer of that variable id; logic circuits keep their default parameters and their compiled integral must equal the model count."),
}

LEVEL_DOC = {
    "C01": "DESIGN.md 2 (C01) and 9.2", "C02": "DESIGN.md 2 (C02) and 9.2", "C03": "DESIGN.md 2 (C03) and 9.2", "C04": "DESIGN.md 2 (C04) and 9.2",
    "C05": "DESIGN.md 2 (C05) and 9.2", "C06": "DESIGN.md 2 (C06) and 9.2", "C07": "DESIGN.md 2 (C07) and 9.2", "C08": "DESIGN.md 2 (C08) and 9.2", "C09": "DESIGN.md 2 (C09) and 9.2",
}

NOT_YET = {}


def main():
    extra_path = os.path.join(ROOT, "bin", "manifest_extra.json")
    extra = json.load(open(extra_path)) if os.path.exists(extra_path) else {"checks": {}, "not_applicable": {}}
    checks = []
    table = dict(CHECKS)
    for pid, v in extra.get("checks", {}).items():
        table[pid] = tuple(v)
    for pid in sorted(table):
        if not os.path.exists(os.path.join(ROOT, "checks", f"{pid}.py")):
            continue
        cat, eng, tech, note, text = table[pid]
        checks.append(
            {
                "property_id": pid,
                "quick_cmd": f"bin/check {pid} --tier quick",
                "thorough_cmd": f"bin/check {pid} --tier thorough",
                "evidence_file": f"evidence/{pid}.json",
                "replay_cmd_template": f"bin/check {pid} --replay {{path}}",
                "engine": eng,
                "level_claimed": {"category": cat, "text": text, "design_ref": LEVEL_DOC.get(pid, f"DESIGN.md 2 ({pid}) and 9.2")},
                "level_note": note,
                "technique": tech,
            }
        )
    claimed = {c["property_id"] for c in checks}
    na = []
    for i in range(1, 21):
        pid = f"C{i:02d}"
        if pid in claimed:
            continue
        na.append({"property_id": pid, "reason": extra.get("not_applicable", {}).get(pid, "check not built yet (work in progress)")})
    fixes = os.popen("git -C /repo log --format=%h --grep='^fix:' 2>/dev/null").read().split()
    m = {
        "version": 1,
        "setup_cmd": "bin/ensure_env.sh",
        "hooks": {
            "guard": "CIRKIT_VERIF",
            "enable": "no source hooks are needed: engine A intercepts ATen calls with a TorchDispatchMode, engine B rebinds module globals at harness time (nothing in /repo is instrumented)",
            "baseline_off_cmd": "cd /repo && /venv/bin/python -m pytest -ra -q -p no:cacheprovider --timeout=900 --continue-on-collection-errors",
            "source_commits": [],
            "add_only": True,
        },
        "engines": [
            {"name": "shadow", "path": "cvf/shadow.py", "serves_properties": sorted(p for p in claimed if table[p][1] == "shadow"), "kind_free_text": "concolic execution of the real torch code under a TorchDispatchMode with a storage-keyed shadow memory of symbolic scalars (Lin/Log forms over a hash-consed term algebra); z3 (rewriter for polynomial identities + nlsat) decides the resulting assertions"},
            {"name": "symx", "path": "cvf/symx.py", "serves_properties": sorted(p for p in claimed if table[p][1] == "symx"), "kind_free_text": "symbolic execution of structure-level Python: the frozenset inside cirkit's Scope is replaced by z3 bit-vector sets, Python branches fork on z3 feasibility, all paths explored by prefix replay"},
        ],
        "checks": checks,
        "not_applicable": na,
        "notes": "fix: commits applied to /repo for genuine defects found by these checks: " + ", ".join(fixes) + " (see known_findings.json and DESIGN.md section 6)",
    }
    with open(os.path.join(ROOT, "MANIFEST.json"), "w") as f:
        json.dump(m, f, indent=1)
    print("MANIFEST.json written:", len(checks), "checks;", len(na), "not claimed")


if __name__ == "__main__":
    main()

#!/bin/bash
# Idempotently builds /verif/.venv: an overlay on /venv (which holds torch + cirkit's deps) with
# z3-solver, cvc5 and crosshair-tool from the offline wheelhouse. Nothing is fetched.
set -e
V=/verif/.venv
if [ -x "$V/bin/python" ] && "$V/bin/python" -c 'import z3, torch, cirkit' 2>/dev/null; then exit 0; fi
(
  flock 9
  if [ -x "$V/bin/python" ] && "$V/bin/python" -c 'import z3, torch, cirkit' 2>/dev/null; then exit 0; fi
  rm -rf "$V"
  /venv/bin/python -m venv "$V"
  SP=$("$V/bin/python" -c 'import site; print(site.getsitepackages()[0])')
  echo "import site; site.addsitedir('/venv/lib/python3.12/site-packages')" > "$SP/_base.pth"
  PIP_NO_INDEX=1 "$V/bin/pip" install -q --no-index --find-links /opt/veriftools/wheels z3-solver cvc5 crosshair-tool >/dev/null 2>&1 || \
  PIP_NO_INDEX=1 "$V/bin/pip" install -q --no-index --find-links /opt/veriftools/wheels z3-solver
  "$V/bin/python" -c 'import z3, torch, cirkit; print("env ok", z3.get_version_string(), torch.__version__)'
) 9>/verif/.venv.lock

#!/bin/bash
# usage: bin/try_seed.sh <seed-dir-or-patch> <tier> <check-id>...   (applies the patch to /repo, runs the checks, always undoes it)
P="$1"; TIER="$2"; shift 2
[ -d "$P" ] && P="$P/patch.diff"
cd /repo || exit 3
if ! git diff --quiet; then echo "refusing: /repo has uncommitted changes"; exit 3; fi
git apply --check "$P" || { echo "patch does not apply"; exit 3; }
git apply "$P"
trap 'git -C /repo checkout -- . ' EXIT
cd /verif
for id in "$@"; do
  out=$(timeout 3000 bin/check "$id" --tier "$TIER" 2>&1); rc=$?
  echo "== $id exit=$rc"
  echo "$out" | grep -E "^(VIOLATION|  signature|HARNESS-ERROR|INCONCLUSIVE|KNOWN|C[0-9]+ )" | cut -c1-300 | head -12
done
